"""Job runner: explores every harness instance of a property in worker processes, replays
counterexamples against the real code, applies the known-findings file, writes evidence."""

from __future__ import annotations

import importlib
import json
import multiprocessing as mp
import os
import sys
import time
import traceback
from pathlib import Path

import z3

from .core import Ctx, ExploreResult, Inconclusive, explore
from . import harness as H

VERIF = Path(__file__).resolve().parent.parent
EXIT_OK, EXIT_VIOLATION, EXIT_INCONCLUSIVE = 0, 1, 2


def _load(prop_id: str):
    return importlib.import_module(f"props.{prop_id.lower()}")


def _eval_sig(sig, model):
    if isinstance(sig, z3.ExprRef):
        v = model.eval(sig, model_completion=True)
        if z3.is_bool(v):
            return bool(z3.is_true(v))
        if z3.is_int_value(v):
            return v.as_long()
        return str(v)
    if isinstance(sig, (list, tuple)):
        return [_eval_sig(s, model) for s in sig]
    if isinstance(sig, dict):
        return {k: _eval_sig(v, model) for k, v in sig.items()}
    from .core import SBool, SInt

    if type(sig) in (SBool, SInt):
        return _eval_sig(sig.e, model)
    if hasattr(sig, "item") and not isinstance(sig, (str, bytes)):
        try:
            return sig.item()
        except Exception:
            pass
    return sig


def _worker(args):
    prop_id, job, seed, tier = args
    mod = _load(prop_id)
    h = mod.HARNESSES[job["h"]]
    label = job.get("label") or f"{job['h']}:{json.dumps({k: v for k, v in job.items() if k not in ('h', 'label')}, sort_keys=True, default=str)}"
    out = dict(job=job, label=label, error=None, result=None, validated=0, validation_error=None)
    t0 = time.perf_counter()
    try:
        pcfg = h.get("patch", {})
        with H.patched(**(pcfg() if callable(pcfg) else pcfg)):
            run = h["run"](job)
            vevery = h.get("validate_every", 16)
            with_real = None
            if vevery and "replay" in h:
                def with_real(inputs, notes, _h=h, _job=job):
                    import warnings as _w

                    with H.unpatched():
                        with _w.catch_warnings():
                            _w.simplefilter("ignore")
                            return _h["replay"](_job, inputs, notes)
            res = explore(run, label=label, max_paths=job.get("max_paths", 400_000),
                          max_seconds=job.get("max_seconds", 3300.0) if tier == "thorough" else min(job.get("max_seconds", 600.0), 600.0),
                          stop_on_cex=True, validate=with_real, validate_every=vevery, validate_max=h.get("validate_max", 24))
            out["result"] = res.as_dict()
            if res.notes:
                out["validation_error"] = "; ".join(res.notes[:2])
            # vacuity guard: the twin of this instance asserts False where the obligations would be; the solver must return a
            # model (the obligations are reachable under satisfiable assumptions) and that model must run on the real code
            # without a violation (exercises the model -> replay pipeline end to end)
            if not res.cex and job.get("twin"):
                def run_twin(ctx, _run=run):
                    obs = _run(ctx)
                    return [("reachability twin: assert False", False)] if obs else obs

                rt = explore(run_twin, label=label + ":twin", max_paths=2000, max_seconds=300.0, stop_on_cex=True)
                if not rt.cex:
                    out["error"] = "vacuity twin: no path of this instance reaches an obligation under satisfiable assumptions"
                elif "replay" in h:
                    with H.unpatched():
                        tmsg = h["replay"](job, rt.cex[0]["inputs"], rt.cex[0].get("notes", {}))
                    if tmsg is not None:
                        out["validation_error"] = f"vacuity twin: the real code reports a violation on the twin's model: {tmsg}"
                    else:
                        out["twin_ok"] = 1
                else:
                    out["twin_ok"] = 1
            # translator validation: pinned concrete runs through the shim vs the real code
            if not res.cex and "pinned" in h:
                for inputs in h["pinned"](job, seed):
                    sigbox = {}

                    def run_pinned(ctx, _inputs=inputs):
                        obs = run(ctx, pinned=_inputs)
                        if ctx.check() == z3.sat and "sig" in ctx.notes:
                            sigbox["sig"] = _eval_sig(ctx.notes["sig"], ctx.solver.model())
                        return obs

                    r2 = explore(run_pinned, label=label + ":pinned", max_paths=10_000)
                    if r2.cex:
                        out["validation_error"] = f"pinned run reports violation for {inputs}: {r2.cex[0]['obligation']}"
                        break
                    if r2.paths == 0:
                        continue  # input outside the harness precondition
                    out["_pinned"] = out.get("_pinned", []) + [(inputs, sigbox.get("sig"))]
                    out["validated"] += 1
    except Inconclusive as e:
        out["error"] = f"{type(e).__name__}: {e}"
    except Exception as e:  # harness bug
        out["error"] = f"harness exception {type(e).__name__}: {e}\n{traceback.format_exc(limit=8)}"
    out["wall_s"] = time.perf_counter() - t0
    return out


def load_known():
    p = VERIF / "known_findings.json"
    if not p.exists():
        return dict(known=[], fixed=[])
    return json.loads(p.read_text())


def run_property(prop_id: str, tier: str, seed: int, procs: int | None = None) -> int:
    t0 = time.time()
    mod = _load(prop_id)
    # import the repository once in the parent so that forked workers share it
    import maze_dataset  # noqa: F401
    import maze_dataset.tokenization  # noqa: F401
    import maze_dataset.dataset.rasterized  # noqa: F401
    import maze_dataset.plotting  # noqa: F401

    if hasattr(mod, "warmup"):
        mod.warmup()
    jobs = mod.jobs(tier, seed)
    procs = procs or int(os.environ.get("VERIF_PROCS", "16"))
    total = ExploreResult()
    errors, validated, val_errors = [], 0, []
    pinned_real_checks = []
    per_harness: dict[str, dict] = {}
    slow: list = []
    early_stop = False
    error_jobs: list = []
    twins_ok = 0
    ctxm = mp.get_context("fork")
    with ctxm.Pool(min(procs, max(1, len(jobs)))) as pool:
        for out in pool.imap_unordered(_worker, [(prop_id, j, seed, tier) for j in jobs], chunksize=1):
            hn = out["job"]["h"]
            ph = per_harness.setdefault(hn, dict(jobs=0, paths=0, queries=0, obligations=0, discharged=0, truncated=0, wall_s=0.0))
            ph["jobs"] += 1
            ph["wall_s"] += out["wall_s"]
            slow.append((round(out["wall_s"], 1), out["label"][:160]))
            if out["error"]:
                errors.append(f"{out['label']}: {out['error']}")
                error_jobs.append(out["job"])
                continue
            r = ExploreResult.from_dict(out["result"])
            for k in ("paths", "queries", "obligations", "discharged", "truncated"):
                ph[k] += getattr(r, k)
            total.merge(r)
            if r.cex and _confirms(mod, prop_id, r.cex, jobs):
                # a counterexample that replays on the real code and is not a known finding: no need to
                # wait for the remaining jobs (they are reported as not explored)
                early_stop = True
                pool.terminate()
                break
            validated += out["validated"]
            twins_ok += out.get("twin_ok", 0)
            if out["validation_error"]:
                val_errors.append(f"{out['label']}: {out['validation_error']}")
            for inputs, sig in out.get("_pinned", []):
                pinned_real_checks.append((out["job"], inputs, sig))
    # translator validation, real side: the same concrete inputs on the unpatched code
    n_validated = total.validated
    for job, inputs, sig in pinned_real_checks:
        h = mod.HARNESSES[job["h"]]
        try:
            msg = h["replay"](job, inputs, {})
            if msg is not None:
                val_errors.append(f"{job['h']}: real code violates on pinned input {inputs} ({msg}) but the symbolic run did not")
                continue
            if sig is not None and "real_sig" in h:
                rs = json.loads(json.dumps(h["real_sig"](job, inputs), default=_js))
                ss = json.loads(json.dumps(sig, default=_js))
                if rs != ss:
                    val_errors.append(f"{job['h']}: shim/real disagreement on {inputs}: shim={ss} real={rs}")
                    continue
            n_validated += 1
        except Exception as e:
            val_errors.append(f"{job['h']}: real replay of pinned input failed: {type(e).__name__}: {e}")
    # counterexamples -> replay on the real code
    known = load_known()
    known_keys = {(k["property"], k["key"]): k for k in known.get("known", [])}
    violations, known_hits, spurious = [], {}, []
    n_hist = 0
    rep_dir = VERIF / "replays"
    for i, cex in enumerate(total.cex):
        job = cex.get("notes", {}).get("job") or _job_of(cex, jobs)
        h = mod.HARNESSES[job["h"]]
        try:
            msg = h["replay"](job, cex["inputs"], cex.get("notes", {}))
        except Exception as e:
            msg = None
            spurious.append(f"replay raised {type(e).__name__}: {e} for {cex['label']}")
            continue
        if msg is None:
            # in-process state (caches filled by earlier replays in this interpreter) can mask a history-dependent defect:
            # give the counterexample one more chance in a fresh interpreter before calling it spurious
            msg = _replay_in_fresh_process(prop_id, job, cex)
        hist = None
        if msg is None and n_hist < 2:
            n_hist += 1
            msg, hist = _history_replay(prop_id, job, cex)
        if msg is None:
            spurious.append(f"counterexample does not reproduce on the real code: {cex['label']} {cex['obligation']} {cex['inputs']}")
            continue
        key = msg.split("|")[0].strip()
        if (prop_id, key) in known_keys:
            known_hits[key] = known_keys[(prop_id, key)]["what"]
            continue
        rep_dir.mkdir(exist_ok=True)
        rp = rep_dir / f"{prop_id}-{i}.json"
        rp.write_text(json.dumps(dict(property=prop_id, job=job, inputs=cex["inputs"], obligation=cex["obligation"],
                                      message=msg, notes=cex.get("notes", {}), **(dict(history=hist) if hist else {})), indent=1, default=_js))
        violations.append((rp, msg))
    # an exploration that broke (e.g. on a stale symbolic value served from a cache of the code under test) may be the
    # symptom of hidden state: run the inputs recorded up to that point one after the other on the unpatched code
    if not violations and not known_hits:
        for job in [j for j in error_jobs if "max_seconds" not in str(j.get("_skip_hist", ""))][:2]:
            msg, hist = _history_replay(prop_id, job, None)
            if msg is None:
                continue
            key = msg.split("|")[0].strip()
            if (prop_id, key) in known_keys:
                known_hits[key] = known_keys[(prop_id, key)]["what"]
                continue
            rep_dir.mkdir(exist_ok=True)
            rp = rep_dir / f"{prop_id}-h{len(violations)}.json"
            rp.write_text(json.dumps(dict(property=prop_id, job=job, inputs=hist[-1]["inputs"], obligation="(exploration broke)", message=msg,
                                          notes=hist[-1].get("notes", {}), history=hist), indent=1, default=_js))
            violations.append((rp, msg))
    wall = time.time() - t0
    meta = getattr(mod, "META", {})
    status = "ok"
    if errors or val_errors or spurious:
        status = "inconclusive"
    if violations:
        status = "violation"
    ev = dict(
        property_id=prop_id, tier=tier, seed=seed, level="model_checking",
        coverage=dict(
            states=max(total.paths, 0), transitions=total.decisions + total.paths,  # decisions taken + one terminal step per completed path

            traces_validated_against_impl=n_validated,
            samples=total.samples[:6] or [dict(note="no completed path")],
            paths=total.paths, paths_aborted_infeasible=total.aborted, paths_truncated_outside_claim=total.truncated,
            obligations=total.obligations, discharged=total.discharged,
            queries=total.queries, solver_s=round(total.solver_s, 3),
            jobs=len(jobs), per_harness=per_harness, vacuity_twins_violated_as_required=twins_ok,
            functions_encoded=meta.get("functions", []), bounds=meta.get("bounds", {}).get(tier, meta.get("bounds", {})),
            degenerate=meta.get("degenerate", {}), stubs=meta.get("stubs", []),
            outside_claim=meta.get("outside", []), engine=meta.get("engine", "symx path-forking executor over z3 " + z3.get_version_string()),
            status=status, errors=(errors + val_errors + spurious)[:20], stopped_early_on_violation=early_stop,
            known_findings_hit=sorted(known_hits), exhaustive=False,
            explanation="states = completed symbolic paths (each stands for every input satisfying its path condition); transitions = decisions taken (solver-checked "
                        "branches, concretisation forks, solver-free choices) plus one terminal step per path; obligations are discharged per path by z3 (unsat of path "
                        "condition and negated obligation); traces_validated_against_impl = models of accepted paths (and pinned concrete inputs) re-run on the unpatched "
                        "repository code with real numpy and found to agree",
            trusted_base=["z3 " + z3.get_version_string(), "CPython", "numpy indexing machinery under the shim", "symx shim element semantics (cross-checked per run)",
                          "hand-written oracles in props/ and symx/oracles.py"] + (["CrossHair 0.0.110"] if prop_id == "C07" else []),
            history_replays=n_hist,
        ),
        assumptions=meta.get("assumptions", []),
        wall_s=round(wall, 2), violations=len(violations),
    )
    (VERIF / "evidence").mkdir(exist_ok=True)
    (VERIF / "evidence" / f"{prop_id}.json").write_text(json.dumps(ev, indent=1, default=_js))
    print(f"[{prop_id}] tier={tier} jobs={len(jobs)} paths={total.paths} truncated={total.truncated} obligations={total.obligations} "
          f"discharged={total.discharged} queries={total.queries} solver_s={total.solver_s:.1f} validated={n_validated} wall={wall:.1f}s")
    if os.environ.get("VERIF_PROFILE"):
        for w, lab in sorted(slow, reverse=True)[:12]:
            print(f"  slow job {w}s {lab}", file=sys.stderr)
    for key, what in sorted(known_hits.items()):
        print(f"KNOWN-FINDING: property={prop_id} {key}: {what}")
    for rp, msg in violations:
        print(f"VIOLATION property={prop_id} replay={rp}")
        print(f"  {msg}")
    if violations:
        return EXIT_VIOLATION
    if errors or val_errors or spurious:
        for e in (errors + val_errors + spurious)[:20]:
            print("INCONCLUSIVE:", e, file=sys.stderr)
        return EXIT_INCONCLUSIVE
    if total.paths == 0 or total.obligations == 0:
        print("INCONCLUSIVE: no path reached an obligation (vacuous)", file=sys.stderr)
        return EXIT_INCONCLUSIVE
    return EXIT_OK


def _replay_in_fresh_process(prop_id, job, cex):
    import subprocess
    import tempfile

    with tempfile.NamedTemporaryFile("w", suffix=".json", delete=False, dir=str(VERIF)) as f:
        json.dump(dict(property=prop_id, job=job, inputs=cex["inputs"], obligation=cex["obligation"], message="", notes=cex.get("notes", {})), f, default=_js)
        path = f.name
    try:
        p = subprocess.run([sys.executable, "-W", "ignore", str(VERIF / "check.py"), prop_id, "--replay", path],
                           env=dict(os.environ, VERIF_IN_VENV="1"), capture_output=True, text=True, timeout=900, cwd=str(VERIF))
        lines = p.stdout.splitlines()
        for i, l in enumerate(lines):
            if l.startswith("VIOLATION") and i + 1 < len(lines):
                return lines[i + 1].strip()
    except Exception:
        return None
    finally:
        try:
            os.remove(path)
        except OSError:
            pass
    return None


def record_history(prop_id: str, job_file: str, out_file: str) -> int:
    """child 1 of a history replay: re-explore one harness instance symbolically and write one model per accepted path in
    exploration order, ending with the counterexample (if the exploration reaches one again)"""
    mod = _load(prop_id)
    if hasattr(mod, "warmup"):
        mod.warmup()
    job = json.loads(Path(job_file).read_text())
    h = mod.HARNESSES[job["h"]]
    pcfg = h.get("patch", {})
    rec: list = []
    cex = None
    err = None
    try:
        with H.patched(**(pcfg() if callable(pcfg) else pcfg)):
            res = explore(h["run"](job), label="history", max_paths=job.get("max_paths", 400_000), max_seconds=900.0, stop_on_cex=True, validate=None, record=rec)
            cex = res.cex[0] if res.cex else None
    except Exception as e:  # the exploration itself broke (e.g. a stale symbolic value served from a cache): keep what was recorded
        err = f"{type(e).__name__}: {e}"
    Path(out_file).write_text(json.dumps(dict(history=rec, cex=cex, error=err), default=_js))
    return 0


def replay_history(prop_id: str, job: dict, entries: list):
    """the recorded inputs one after the other on the unpatched code, in ONE process; first violation message or None"""
    mod = _load(prop_id)
    h = mod.HARNESSES[job["h"]]
    for k, e in enumerate(entries):
        try:
            msg = h["replay"](job, e["inputs"], e.get("notes", {}))
        except Exception as ex:
            if k == len(entries) - 1:
                raise
            continue
        if msg is not None:
            key, _, rest = msg.partition("|")
            return f"{key.strip()} | [after the {k} earlier inputs of the same exploration were run on the real code in the same process] {rest.strip()}", k
    return None, None


def _history_replay(prop_id, job, cex):
    """a counterexample (or a broken exploration) that does not reproduce in isolation may depend on state that earlier
    executions left behind in the process.  The exploration order is itself a call history: re-record it (child 1, symbolic),
    then run the recorded inputs one after the other on the unpatched code in a fresh interpreter (child 2)."""
    import subprocess
    import tempfile

    d = Path(tempfile.mkdtemp(prefix="hist-", dir=str(VERIF)))
    try:
        (d / "job.json").write_text(json.dumps(job, default=_js))
        env = dict(os.environ, VERIF_IN_VENV="1")
        subprocess.run([sys.executable, "-W", "ignore", str(VERIF / "check.py"), prop_id, "--record-history", str(d / "job.json"), str(d / "rec.json")],
                       env=env, capture_output=True, text=True, timeout=1200, cwd=str(VERIF))
        if not (d / "rec.json").exists():
            return None, None
        rec = json.loads((d / "rec.json").read_text())
        entries = list(rec["history"])
        last = rec.get("cex") or cex
        if last is not None:
            entries.append(dict(inputs=last["inputs"], notes=last.get("notes", {})))
        if not entries:
            return None, None
        (d / "hist.json").write_text(json.dumps(dict(property=prop_id, job=job, history=entries), default=_js))
        p = subprocess.run([sys.executable, "-W", "ignore", str(VERIF / "check.py"), prop_id, "--replay", str(d / "hist.json")],
                           env=env, capture_output=True, text=True, timeout=1200, cwd=str(VERIF))
        lines = p.stdout.splitlines()
        for i, l in enumerate(lines):
            if l.startswith("VIOLATION") and i + 1 < len(lines):
                msg = lines[i + 1].strip()
                k = int(msg.split("after the ")[1].split(" ")[0]) if "after the " in msg else len(entries) - 1
                return msg, entries[: k + 1]
    except Exception:
        return None, None
    finally:
        import shutil

        shutil.rmtree(d, ignore_errors=True)
    return None, None


def _confirms(mod, prop_id, cexs, jobs) -> bool:
    known = {(k["property"], k["key"]) for k in load_known().get("known", [])}
    for cex in cexs:
        try:
            job = _job_of(cex, jobs)
            msg = mod.HARNESSES[job["h"]]["replay"](job, cex["inputs"], cex.get("notes", {}))
            if msg is None:
                msg = _replay_in_fresh_process(prop_id, job, cex)
        except Exception:
            continue
        if msg is not None and (prop_id, msg.split("|")[0].strip()) not in known:
            return True
    return False


def _job_of(cex, jobs):
    for j in jobs:
        lab = j.get("label") or f"{j['h']}:{json.dumps({k: v for k, v in j.items() if k not in ('h', 'label')}, sort_keys=True, default=str)}"
        if lab == cex["label"]:
            return j
    raise Inconclusive(f"cannot find job for {cex['label']}")


def _js(o):
    import numpy as np

    if isinstance(o, np.generic):
        return o.item()
    if isinstance(o, np.ndarray):
        return o.tolist()
    if isinstance(o, (set, frozenset, tuple)):
        return list(o)
    if isinstance(o, Path):
        return str(o)
    return str(o)


def replay_file(path: str) -> int:
    d = json.loads(Path(path).read_text())
    mod = _load(d["property"])
    if hasattr(mod, "warmup"):
        mod.warmup()
    h = mod.HARNESSES[d["job"]["h"]]
    if d.get("history"):
        msg, _k = replay_history(d["property"], d["job"], d["history"])
    else:
        msg = h["replay"](d["job"], d["inputs"], d.get("notes", {}))
    if msg is None:
        print("replay: no violation on the current tree")
        return 0
    print(f"VIOLATION property={d['property']} replay={path}")
    print(" ", msg)
    return 1
