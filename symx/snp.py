"""Symbolic numpy shim.

`SArr` wraps a `dtype=object` ndarray whose elements are Python scalars or symbolic values
(SBool/SInt/SReal) plus a dtype *kind* tag ('b' bool, 'i' int, 'f' float, 'U' str, 'O' other).
numpy's own indexing / slicing / broadcasting machinery is reused for concrete index
structure; element semantics are explicit.  Policy:

* concrete pass-through: a shim function whose array arguments are all concrete delegates to
  real numpy (maximum fidelity where nothing is symbolic);
* anything not implemented raises ShimUnsupported (exit 2), it is never silently mis-modelled;
* `SArr` implements `__array_function__` / `__array_ufunc__`, so repository modules whose `np`
  was not rebound still dispatch into the shim; `__array__` only works for concrete arrays.

The module object `snp` (see `make_module`) falls back to real numpy for every attribute not
overridden here, so it can be rebound as `np` inside repository modules.
"""

from __future__ import annotations

import builtins
import itertools
import types

import numpy as _np
import z3

from . import core as _core
from .core import (Inconclusive, SBool, SInt, SReal, ShimUnsupported, cur, is_sym, zb, zi, zn)

_SYM = (SBool, SInt, SReal)


# --------------------------------------------------------------------------------------
# element helpers
# --------------------------------------------------------------------------------------
def _py(x):
    if isinstance(x, _np.generic):
        return x.item()
    return x


def _kind_of_dtype(dt) -> str:
    if dt is None:
        return "f"
    if dt is bool or dt is _np.bool_:
        return "b"
    if dt is int:
        return "i"
    if dt is float:
        return "f"
    if dt is str:
        return "U"
    if dt is object:
        return "O"
    k = _np.dtype(dt).kind
    return {"b": "b", "i": "i", "u": "i", "f": "f", "U": "U", "S": "U", "O": "O"}.get(k, "O")


def _int_width(dt):
    """(bits, signed) for fixed-width integer dtypes narrower than 64 bits, else None (modelled as unbounded)"""
    try:
        d = _np.dtype(dt)
    except Exception:
        return None
    if d.kind in "iu" and d.itemsize < 8:
        return d.itemsize * 8, d.kind == "i"
    return None


def _wrap_int(x, bits, signed):
    """C-style wrap-around of an integer into a fixed-width dtype"""
    lo = -(1 << (bits - 1)) if signed else 0
    m = 1 << bits
    if type(x) is SInt:
        b = _bounds(x.e)
        if b is not None and lo <= b[0] and b[1] < lo + m:
            return x  # provably in range: the cast is the identity
        return SInt(_zmod(x.e - lo, m) + lo)
    return ((int(x) - lo) % m) + lo


def _bounds(e, depth=0):
    """cheap syntactic interval (lo, hi) of an integer term, or None"""
    if depth > 40:
        return None
    if z3.is_int_value(e):
        v = e.as_long()
        return v, v
    k = e.decl().kind() if z3.is_app(e) else None
    if k == z3.Z3_OP_ITE:
        a, b = _bounds(e.arg(1), depth + 1), _bounds(e.arg(2), depth + 1)
        if a is None or b is None:
            return None
        return builtins.min(a[0], b[0]), builtins.max(a[1], b[1])
    if k == z3.Z3_OP_ADD:
        lo_ = hi_ = 0
        for c in e.children():
            b = _bounds(c, depth + 1)
            if b is None:
                return None
            lo_ += b[0]
            hi_ += b[1]
        return lo_, hi_
    if k == z3.Z3_OP_SUB and e.num_args() == 2:
        a, b = _bounds(e.arg(0), depth + 1), _bounds(e.arg(1), depth + 1)
        if a is None or b is None:
            return None
        return a[0] - b[1], a[1] - b[0]
    if k == z3.Z3_OP_UMINUS:
        a = _bounds(e.arg(0), depth + 1)
        return None if a is None else (-a[1], -a[0])
    if k == z3.Z3_OP_MUL and e.num_args() == 2:
        a, b = _bounds(e.arg(0), depth + 1), _bounds(e.arg(1), depth + 1)
        if a is None or b is None:
            return None
        ps = [a[0] * b[0], a[0] * b[1], a[1] * b[0], a[1] * b[1]]
        return builtins.min(ps), builtins.max(ps)
    if k == z3.Z3_OP_UNINTERPRETED and e.num_args() == 0:
        from .core import Ctx

        c = Ctx.cur
        if c is not None:
            return c.var_bounds.get(e.decl().name())
    return None


def _zmod(e, m):
    return e % m  # z3 mod with positive constant modulus is the mathematical (non-negative) remainder


def _kind_of_value(x) -> str:
    t = type(x)
    if t is SBool or t is bool or isinstance(x, _np.bool_):
        return "b"
    if t is SInt or isinstance(x, (int, _np.integer)):
        return "i"
    if t is SReal or isinstance(x, (float, _np.floating)):
        return "f"
    if isinstance(x, str):
        return "U"
    return "O"


_RANK = {"b": 0, "i": 1, "f": 2, "U": 3, "O": 4}


def _promote(*kinds) -> str:
    return builtins.max(kinds, key=lambda k: _RANK[k])


def _np_dtype_for(kind):
    return {"b": _np.bool_, "i": _np.int64, "f": _np.float64, "U": str, "O": object}[kind]


def ite(c, a, b):
    """element-level if-then-else; c is a z3 BoolRef"""
    c = z3.simplify(c)
    if z3.is_true(c):
        return a
    if z3.is_false(c):
        return b
    a = _py(a)
    b = _py(b)
    if not is_sym(a) and not is_sym(b):
        try:
            if type(a) is type(b) and a == b:
                return a
        except Exception:
            pass
    ka, kb = _kind_of_value(a), _kind_of_value(b)
    k = _promote(ka, kb)
    if k == "b":
        return SBool(z3.If(c, zb(a), zb(b)))
    if k == "i":
        wa, wb = getattr(a, "w", None), getattr(b, "w", None)
        return SInt(z3.If(c, zi(a), zi(b)), wa if wa == wb else None)
    if k == "f":
        return SReal(z3.If(c, z3.ToReal(zn(a)) if zn(a).is_int() else zn(a),
                           z3.ToReal(zn(b)) if zn(b).is_int() else zn(b)))
    raise ShimUnsupported(f"ite over non-numeric elements {a!r} / {b!r}")


def _cast(x, kind):
    x = _py(x)
    t = type(x)
    if kind == "b":
        if t is SBool:
            return x
        if t is SInt or t is SReal:
            return SBool(x.e != 0)
        return bool(x)
    if kind == "i":
        if t is SBool:
            return SInt(z3.If(x.e, 1, 0))
        if t is SInt:
            return x
        if t is SReal:
            raise ShimUnsupported("real -> int cast of a symbolic value")
        return int(x)
    if kind == "f":
        if t is SBool:
            return SReal(z3.If(x.e, z3.RealVal(1), z3.RealVal(0)))
        if t is SInt:
            return SReal(z3.ToReal(x.e))
        if t is SReal:
            return x
        return float(x)
    return x


def _e_and(a, b):
    if is_sym(a) or is_sym(b):
        return SBool(z3.And(zb(a), zb(b)))
    return bool(a) and bool(b)


def _e_or(a, b):
    if is_sym(a) or is_sym(b):
        return SBool(z3.Or(zb(a), zb(b)))
    return bool(a) or bool(b)


def _e_xor(a, b):
    if is_sym(a) or is_sym(b):
        return SBool(z3.Xor(zb(a), zb(b)))
    return bool(a) != bool(b)


def _e_not(a):
    if is_sym(a):
        return SBool(z3.Not(zb(a)))
    return not a


def _e_max(a, b):
    if is_sym(a) or is_sym(b):
        return ite(zn(a) >= zn(b), a, b)
    return a if a >= b else b


def _e_min(a, b):
    if is_sym(a) or is_sym(b):
        return ite(zn(a) <= zn(b), a, b)
    return a if a <= b else b


def _simp(x):
    """fold symbolic elements that are constants back to Python values"""
    t = type(x)
    if t is SBool:
        e = z3.simplify(x.e)
        if z3.is_true(e):
            return True
        if z3.is_false(e):
            return False
    elif t is SInt:
        e = z3.simplify(x.e)
        if z3.is_int_value(e):
            return e.as_long()
    return x


# --------------------------------------------------------------------------------------
# SArr
# --------------------------------------------------------------------------------------
def _obj(x):
    """anything array-like -> object ndarray"""
    if isinstance(x, SArr):
        return x.o
    if isinstance(x, _np.ndarray):
        return x.astype(object) if x.dtype != object else x
    if isinstance(x, (list, tuple, range)):
        x = list(x)
        if not _contains_sym(x):
            a = _np.array(x)
            return a.astype(object)
        shp = _shape_of(x)
        a = _np.empty(shp, dtype=object)
        _fill(a, x)
        return a
    a = _np.empty((), dtype=object)
    a[()] = _py(x)
    return a


def _contains_sym(x) -> bool:
    if is_sym(x):
        return True
    if isinstance(x, SArr):
        return x.has_sym()
    if isinstance(x, (list, tuple)):
        return builtins.any(_contains_sym(e) for e in x)
    if isinstance(x, _np.ndarray) and x.dtype == object:
        return builtins.any(is_sym(e) for e in x.flat)
    return False


def _shape_of(x):
    if isinstance(x, SArr):
        return x.o.shape
    if isinstance(x, _np.ndarray):
        return x.shape
    if isinstance(x, (list, tuple)):
        if len(x) == 0:
            return (0,)
        return (len(x),) + _shape_of(x[0])
    return ()


def _fill(a, x):
    if a.ndim == 0:
        a[()] = _py(x.o[()] if isinstance(x, SArr) else x)
        return
    if isinstance(x, SArr):
        a[...] = x.o
        return
    if isinstance(x, _np.ndarray):
        a[...] = x.astype(object)
        return
    if len(x) != a.shape[0]:
        raise ShimUnsupported("ragged nested sequence")
    for i, xi in enumerate(x):
        if a.ndim == 1:
            if isinstance(xi, SArr):
                xi = xi.o[()]
            a[i] = _py(xi)
        else:
            _fill(a[i], xi)


def _kind_of_any(x) -> str:
    if isinstance(x, SArr):
        return x.kind
    if isinstance(x, _np.ndarray):
        return _kind_of_dtype(x.dtype) if x.dtype != object else _kind_of_elems(x)
    if isinstance(x, (list, tuple, range)):
        ks = [_kind_of_any(e) for e in x]
        return _promote(*ks) if ks else "f"
    return _kind_of_value(_py(x))


def _kind_of_elems(o) -> str:
    ks = {_kind_of_value(e) for e in o.flat}
    return _promote(*ks) if ks else "f"


class SArr:
    __array_priority__ = 10_000
    __slots__ = ("o", "kind", "width")

    def __init__(self, o, kind=None, width=None):
        """width: (bits, signed) for integer arrays of a fixed-width dtype narrower than 64 bits (their arithmetic
        wraps like numpy's), None for unbounded (int64 is modelled as a mathematical integer)"""
        if not (isinstance(o, _np.ndarray) and o.dtype == object):
            o = _obj(o)
        self.o = o
        self.kind = kind if kind is not None else _kind_of_elems(o)
        self.width = width if self.kind == "i" else None

    # -- introspection ---------------------------------------------------------------
    @property
    def shape(self):
        return self.o.shape

    @property
    def ndim(self):
        return self.o.ndim

    @property
    def size(self):
        return self.o.size

    @property
    def dtype(self):
        if self.kind == "i" and self.width:
            return _np.dtype(f"{'int' if self.width[1] else 'uint'}{self.width[0]}")
        return _np.dtype(_np_dtype_for(self.kind))

    @property
    def T(self):
        return SArr(self.o.T, self.kind, self.width)

    @property
    def flat(self):
        return self.o.flat

    def has_sym(self) -> bool:
        for e in self.o.flat:
            if type(e) in _SYM:
                return True
        return False

    def concrete(self):
        """real ndarray if every element is concrete (constants folded), else None"""
        out = _np.empty(self.o.shape, dtype=object)
        for idx, e in _np.ndenumerate(self.o):
            e = _simp(e)
            if type(e) in _SYM:
                return None
            out[idx] = e
        if self.kind in ("b", "i", "f"):
            return out.astype(_np_dtype_for(self.kind))
        if self.kind == "U":
            return out.astype(str)
        return out

    def __array__(self, dtype=None, copy=None):
        c = self.concrete()
        if c is None:
            # a symbolic array reached real numpy (unshimmed call site): fall back to forking every
            # symbolic element to each feasible concrete value (sound, but degenerate); counted
            ctx = cur()
            ctx.notes["realized_arrays"] = ctx.notes.get("realized_arrays", 0) + 1
            c = concretize_array(self)
        return c if dtype is None else c.astype(dtype)

    def __len__(self):
        if self.o.ndim == 0:
            raise TypeError("len() of unsized object")
        return self.o.shape[0]

    def __iter__(self):
        for i in range(len(self)):
            yield self[i]

    def __repr__(self):
        # never concretise while formatting (arrays are printed into exception messages)
        return f"SArr(kind={self.kind}, shape={self.o.shape}, {[repr(x) for x in self.o.flat][:12]})"

    __str__ = __repr__

    def __format__(self, spec):
        return repr(self)

    def __bool__(self):
        if self.o.size != 1:
            raise ValueError("The truth value of an array with more than one element is ambiguous.")
        return bool(self.o.flat[0])

    def __index__(self):
        if self.o.size != 1:
            raise TypeError("only size-1 arrays can be converted to an index")
        return int(self.o.flat[0])

    __int__ = __index__

    def __hash__(self):
        raise TypeError("unhashable type: 'SArr'")

    def item(self):
        return self.o.flat[0]

    def tolist(self):
        return self.o.tolist()

    def copy(self):
        return SArr(self.o.copy(), self.kind, self.width)

    def ravel(self):
        return SArr(self.o.ravel(), self.kind, self.width)

    def flatten(self):
        return SArr(self.o.flatten(), self.kind, self.width)

    def reshape(self, *shape):
        if len(shape) == 1 and isinstance(shape[0], (tuple, list)):
            shape = tuple(shape[0])
        return SArr(self.o.reshape(*shape), self.kind, self.width)

    def transpose(self, *axes):
        return SArr(self.o.transpose(*axes), self.kind, self.width)

    def squeeze(self, axis=None):
        return SArr(self.o.squeeze(axis), self.kind, self.width)

    def fill(self, v):
        self.o.fill(_py(v))

    def astype(self, dt, copy=True):
        k = _kind_of_dtype(dt)
        w = _int_width(dt)
        if k == self.kind and w is None:
            return SArr(self.o.copy(), k)
        if w is None:
            return SArr(_map1(lambda x: _cast(x, k), self.o), k)
        return SArr(_map1(lambda x: _wrap_int(_cast(x, "i"), *w), self.o), "i", w)

    def tobytes(self):
        c = self.concrete()
        if c is None:
            c = concretize_array(self)
        return c.tobytes()

    # -- indexing --------------------------------------------------------------------
    def __getitem__(self, key):
        return _getitem(self, key)

    def __setitem__(self, key, v):
        _setitem(self, key, v)

    # -- arithmetic ------------------------------------------------------------------
    def _bin(self, other, fn, kindf):
        return _binary(self, other, fn, kindf)

    def __add__(self, o):
        return add(self, o)

    def __radd__(self, o):
        return add(o, self)

    def __iadd__(self, o):
        r = add(self, o)
        self.o[...] = _obj(r)
        return self

    def __sub__(self, o):
        return subtract(self, o)

    def __rsub__(self, o):
        return subtract(o, self)

    def __isub__(self, o):
        r = subtract(self, o)
        self.o[...] = _obj(r)
        return self

    def __mul__(self, o):
        return multiply(self, o)

    def __rmul__(self, o):
        return multiply(o, self)

    def __floordiv__(self, o):
        return _binary(self, o, lambda a, b: a // b, lambda ka, kb: _promote(ka, kb, "i"), arith=True)

    def __mod__(self, o):
        return _binary(self, o, lambda a, b: a % b, lambda ka, kb: _promote(ka, kb, "i"), arith=True)

    def __truediv__(self, o):
        return _binary(self, o, lambda a, b: a / b, lambda ka, kb: "f")

    def __neg__(self):
        w = self.width
        return SArr(_map1((lambda x: _wrap_int(-x, *w)) if w else (lambda x: -x), self.o), _promote(self.kind, "i"), w)

    def __abs__(self):
        return absolute(self)

    def __invert__(self):
        if self.kind != "b":
            raise ShimUnsupported("~ on a non-boolean array")
        return SArr(_map1(_e_not, self.o), "b")

    def __and__(self, o):
        return logical_and(self, o)

    __rand__ = __and__

    def __or__(self, o):
        return logical_or(self, o)

    __ror__ = __or__

    def __xor__(self, o):
        return _binary(self, o, _e_xor, lambda ka, kb: "b")

    def __lt__(self, o):
        return _binary(self, o, lambda a, b: a < b, lambda ka, kb: "b")

    def __le__(self, o):
        return _binary(self, o, lambda a, b: a <= b, lambda ka, kb: "b")

    def __gt__(self, o):
        return _binary(self, o, lambda a, b: a > b, lambda ka, kb: "b")

    def __ge__(self, o):
        return _binary(self, o, lambda a, b: a >= b, lambda ka, kb: "b")

    def __eq__(self, o):
        return equal(self, o)

    def __ne__(self, o):
        return not_equal(self, o)

    # -- reductions ------------------------------------------------------------------
    def sum(self, axis=None, **kw):
        return sum(self, axis=axis)

    def all(self, axis=None, **kw):
        return all(self, axis=axis)

    def any(self, axis=None, **kw):
        return any(self, axis=axis)

    def max(self, axis=None, **kw):
        return amax(self, axis=axis)

    def min(self, axis=None, **kw):
        return amin(self, axis=axis)

    def argmax(self, axis=None):
        return argmax(self, axis=axis)

    def prod(self, axis=None):
        return prod(self, axis=axis)

    def cumsum(self, axis=None):
        return cumsum(self, axis=axis)

    # -- numpy protocol dispatch -----------------------------------------------------------
    def __array_function__(self, func, types_, args, kwargs):
        name = func.__name__
        mod = getattr(func, "__module__", "") or ""
        target = None
        if "linalg" in mod:
            target = getattr(linalg, name, None)
        else:
            target = globals().get(name)
        if target is None or target is func:
            return _fallback_concrete(func, args, kwargs, name)
        return target(*args, **kwargs)

    def __array_ufunc__(self, ufunc, method, *inputs, **kwargs):
        if method == "__call__" and kwargs.get("out") is not None and not builtins.any(_contains_sym(i) for i in inputs):
            return getattr(ufunc, method)(*[_real(i) for i in inputs], **kwargs)
        if method != "__call__" or kwargs.get("out") is not None:
            raise ShimUnsupported(f"ufunc {ufunc.__name__}.{method} with a symbolic operand and a real output array")
        target = globals().get(ufunc.__name__)
        if target is None:
            kwargs.pop("out", None)
            return _fallback_concrete(ufunc, inputs, kwargs, ufunc.__name__)
        kwargs.pop("out", None)
        return target(*inputs, **kwargs)


def _fallback_concrete(func, args, kwargs, name):
    """a numpy function the shim does not model: fork every symbolic element of its array arguments to each feasible
    concrete value and run the real function (sound, degenerate; counted in the path's notes)"""
    ctx = cur()
    ctx.notes["unmodelled_numpy_calls"] = sorted(set(ctx.notes.get("unmodelled_numpy_calls", [])) | {name})

    def conc(x):
        if isinstance(x, SArr):
            c = x.concrete()
            if c is None:
                c = concretize_array(x)
                if x.kind in "bif":
                    c = c.astype(x.dtype)
            elif x.kind == "i" and x.width:
                c = c.astype(x.dtype)
            return c
        if is_sym(x):
            return concretize_elem(x)
        if isinstance(x, (list, tuple)):
            return type(x)(conc(e) for e in x)
        return x

    return func(*[conc(a) for a in args], **{k: conc(v) for k, v in kwargs.items()})


def _map1(f, o):
    out = _np.empty(o.shape, dtype=object)
    for idx, e in _np.ndenumerate(o):
        out[idx] = f(_py(e))
    return out


def _wrap_scalar_or_arr(o, kind):
    if isinstance(o, _np.ndarray):
        return SArr(o, kind)
    return _py(o)


def _dtype_rep(x):
    """operand as numpy's result_type sees it: a dtype for arrays, the value itself for concrete scalars"""
    if isinstance(x, SArr):
        return x.dtype if x.kind in "bif" else _np.dtype(object)
    if isinstance(x, _np.ndarray):
        return x.dtype if x.dtype != object else _np.dtype(_np_dtype_for(_kind_of_elems(x)) if x.size else _np.int64)
    if isinstance(x, (list, tuple, range)):
        return _np.dtype(_np_dtype_for(_kind_of_any(x)))
    x = _py(x)
    t = type(x)
    if t is SBool:
        return False
    if t is SInt:
        b = _bounds(x.e)
        if b is not None:  # value-based casting of a python scalar: the extreme it can take decides
            return b[0] if builtins.abs(b[0]) > builtins.abs(b[1]) else b[1]
        return 0  # assumed to fit the array operand's dtype (stated in the shim's assumptions)
    if t is SReal:
        return 0.0
    return x


def _common_width(*xs):
    """(bits, signed) of numpy's result dtype for these operands, or None when it is 64-bit / not an integer"""
    try:
        dt = _np.result_type(*[_dtype_rep(x) for x in xs])
    except Exception:
        return None
    return _int_width(dt) if dt.kind in "iu" else None


def _binary(a, b, fn, kindf, arith=False, keepw=False):
    ka, kb = _kind_of_any(a), _kind_of_any(b)
    oa, ob = _obj(a), _obj(b)
    ba, bb = _np.broadcast_arrays(oa, ob)
    out = _np.empty(ba.shape, dtype=object)
    k = kindf(ka, kb)
    w = _common_width(a, b) if (k == "i" and (arith or keepw) and ka in "bi" and kb in "bi") else None
    for idx in _np.ndindex(ba.shape):
        r = fn(_py(ba[idx]), _py(bb[idx]))
        if w and arith:
            r = _wrap_int(_cast(r, "i"), *w)
        out[idx] = r
    if out.ndim == 0 and not (isinstance(a, (SArr, _np.ndarray)) or isinstance(b, (SArr, _np.ndarray))):
        return out[()]
    return SArr(out, k, w)


# --------------------------------------------------------------------------------------
# concretisation helpers
# --------------------------------------------------------------------------------------
def concretize_elem(x):
    t = type(x)
    if t is SBool:
        return bool(x)
    if t is SInt:
        return int(x)
    if t is SReal:
        raise Inconclusive("cannot concretise a symbolic real")
    return x


def concretize_array(a) -> _np.ndarray:
    """fork every symbolic element to a concrete value; returns a real ndarray"""
    if not isinstance(a, SArr):
        return _np.asarray(a)
    out = _np.empty(a.o.shape, dtype=object)
    for idx, e in _np.ndenumerate(a.o):
        out[idx] = concretize_elem(e)
    if a.kind in ("b", "i", "f"):
        return out.astype(_np_dtype_for(a.kind))
    return out


# --------------------------------------------------------------------------------------
# indexing
# --------------------------------------------------------------------------------------
def _norm_key(key):
    if not isinstance(key, tuple):
        key = (key,)
    return key


def _key_has(key, pred):
    return builtins.any(pred(k) for k in key)


def _is_symint(k):
    return type(k) in (SInt, SBool)


def _is_symarr(k):
    return isinstance(k, SArr) and k.has_sym()


def _plain_key(key):
    out = []
    for k in key:
        if isinstance(k, SArr):
            c = k.concrete()
            if c is None:
                raise ShimUnsupported("internal: symbolic index array in plain key")
            out.append(c)
        else:
            out.append(k)
    return tuple(out)


def _in_range_or_concrete(k, n):
    """for symbolic int index k on an axis of length n: returns ('sym', k) when 0<=k<n holds on
    this path, else ('int', concrete value)"""
    e = zi(k)
    c = cur()
    if c.branch(z3.And(e >= 0, e < n)):
        return "sym", e
    return "int", c.concretize(e)


def _getitem(a: SArr, key):
    key = _norm_key(key)
    if not _key_has(key, lambda k: _is_symint(k) or _is_symarr(k)):
        r = a.o[_plain_key(key)]
        return SArr(r, a.kind, a.width) if isinstance(r, _np.ndarray) else _typed_scalar(_py(r), a)
    # symbolic boolean mask read: result shape depends on data -> concretise the mask
    if _key_has(key, lambda k: isinstance(k, SArr) and k.kind == "b" and k.has_sym()):
        key = tuple(concretize_array(k) if (isinstance(k, SArr) and k.kind == "b") else k for k in key)
        return _getitem(a, key)
    # integer index arrays with symbolic entries (fancy indexing)
    if _key_has(key, _is_symarr) or _key_has(key, lambda k: isinstance(k, (SArr, _np.ndarray, list))):
        return _fancy_get(a, key)
    # basic indexing with symbolic scalar ints
    return _basic_sym_get(a, key)


def _typed_scalar(r, a: SArr):
    """an element taken out of a fixed-width integer array is a numpy scalar of that dtype, not a Python int"""
    if a.kind == "i":
        if type(r) is SInt:
            return SInt(r.e, a.width)
        if a.width and type(r) is int:
            return a.dtype.type(_wrap_int(r, *a.width))
    return r


def _scalar_width(x):
    """(is_typed, width) of a scalar operand: numpy-typed scalars carry their dtype, Python ints do not"""
    if type(x) is SInt:
        return (x.w is not None), x.w
    if isinstance(x, _np.integer):
        return True, _int_width(x.dtype)
    return False, None


def _typed_scalar_arith(a, b, r):
    """result of a scalar operation where at least one side is a numpy-typed integer scalar (numpy 1.x rules: typed with typed
    -> the common dtype; typed with a Python int -> the typed side's dtype if the value fits, else the next that holds it)"""
    ta, wa = _scalar_width(a)
    tb, wb = _scalar_width(b)
    if isinstance(b, (float, SReal, _np.floating)) or isinstance(a, (float, SReal, _np.floating)):
        return r
    try:
        reps = []
        for x, t, w in ((a, ta, wa), (b, tb, wb)):
            if t:
                reps.append(_np.dtype(f"{'int' if w[1] else 'uint'}{w[0]}") if w else _np.dtype(_np.int64))
            else:
                reps.append(_dtype_rep(x))
        if not (ta and tb):
            # legacy value-based casting looks at the Python scalar's value; result_type needs an array-like for that
            reps = [(_np.zeros(0, dtype=x) if isinstance(x, _np.dtype) else x) for x in reps]
        dt = _np.result_type(*reps)
    except Exception:
        return r
    w = _int_width(dt) if dt.kind in "iu" else None
    if w is None:  # 64-bit result: a mathematical integer in this model
        v = _core._lit(r.e)
        return SInt(r.e) if v is None else v
    out = _wrap_int(r, *w)
    if type(out) is SInt:
        return SInt(out.e, w)
    return dt.type(out)


_core._TYPED_SCALAR_HOOK = _typed_scalar_arith


def _basic_sym_get(a: SArr, key):
    # find first symbolic scalar index
    key = list(key)
    if Ellipsis in key:
        i = key.index(Ellipsis)
        nfill = a.o.ndim - (len([k for k in key if k is not None]) - 1)
        key[i:i + 1] = [slice(None)] * nfill
    axis = 0
    for pos, k in enumerate(key):
        if _is_symint(k):
            n = a.o.shape[axis]
            tag, v = _in_range_or_concrete(k, n)
            if tag == "int":
                key[pos] = v
                return _getitem(a, tuple(key))
            res = None
            for i in range(n - 1, -1, -1):
                key[pos] = i
                sub = _getitem(a, tuple(key))
                res = sub if res is None else _ite_any(v == i, sub, res)
            return res
        if k is not None:
            axis += 1
    raise AssertionError("unreachable")


def _ite_any(c, x, y):
    if isinstance(x, SArr) or isinstance(y, SArr):
        ox, oy = _np.broadcast_arrays(_obj(x), _obj(y))
        out = _np.empty(ox.shape, dtype=object)
        for idx in _np.ndindex(ox.shape):
            out[idx] = ite(c, ox[idx], oy[idx])
        return SArr(out, _promote(_kind_of_any(x), _kind_of_any(y)), _common_width(x, y))
    return ite(c, x, y)


def _fancy_get(a: SArr, key):
    """advanced indexing where every key part is an int / symbolic int / int array"""
    parts = []
    for k in key:
        if isinstance(k, slice) or k is None or k is Ellipsis:
            # allow trailing full slices only
            parts.append(k)
        else:
            parts.append(k)
    # split off trailing full slices / ellipsis
    lead = [p for p in parts if not (isinstance(p, slice) or p is Ellipsis)]
    trail = parts[len(lead):]
    if builtins.any(isinstance(p, slice) or p is Ellipsis or p is None for p in parts[:len(lead)]) or \
            builtins.any(not ((isinstance(p, slice) and p == slice(None)) or p is Ellipsis) for p in trail):
        # mixed basic/advanced with symbolic -> concretise symbolic parts
        key2 = tuple(concretize_array(k) if isinstance(k, SArr) else (int(k) if _is_symint(k) else k) for k in key)
        r = a.o[key2]
        return SArr(r, a.kind, a.width) if isinstance(r, _np.ndarray) else _py(r)
    idx_arrays = _np.broadcast_arrays(*[_obj(p) for p in lead])
    oshape = idx_arrays[0].shape
    rest_shape = a.o.shape[len(lead):]
    out = _np.empty(oshape + rest_shape, dtype=object)
    for pos in _np.ndindex(oshape):
        ks = tuple(_py(ia[pos]) for ia in idx_arrays)
        sub = _getitem(a, ks)
        if rest_shape:
            out[pos] = sub.o if isinstance(sub, SArr) else sub
        else:
            out[pos] = sub
    if out.ndim == 0:
        return out[()]
    return SArr(out, a.kind, a.width)


def _setitem(a: SArr, key, v):
    key = _norm_key(key)
    if a.width and a.kind == "i":
        # storing into a fixed-width integer array casts (wraps) the value like numpy does
        w = a.width
        if isinstance(v, SArr):
            v = SArr(_map1(lambda x: _wrap_int(_cast(x, "i"), *w), v.o), "i", w)
        elif isinstance(v, (_np.ndarray, list, tuple)):
            v = SArr(_map1(lambda x: _wrap_int(_cast(x, "i"), *w), _obj(v)), "i", w)
        elif _kind_of_value(_py(v)) in "bi":
            v = _wrap_int(_cast(_py(v), "i"), *w)
    if isinstance(v, SArr):
        vo = v.o
    elif isinstance(v, (_np.ndarray, list, tuple)):
        vo = _obj(v)
    else:
        vo = _py(v)
    if not _key_has(key, lambda k: _is_symint(k) or _is_symarr(k)):
        a.o[_plain_key(key)] = vo
        return
    # symbolic boolean mask write:  a[mask] = v  ->  a = where(mask, v, a)
    if len(key) == 1 and isinstance(key[0], SArr) and key[0].kind == "b":
        m = key[0].o
        k = m.ndim
        if m.shape != a.o.shape[:k]:
            raise ShimUnsupported("boolean mask shape mismatch")
        vb = _np.broadcast_to(_obj(v), a.o.shape[k:]) if a.o.ndim > k else _obj(v)
        for idx in _np.ndindex(m.shape):
            c = m[idx]
            if not is_sym(c):
                if c:
                    a.o[idx] = vb if a.o.ndim > k else vb[()]
                continue
            if a.o.ndim > k:
                tgt = a.o[idx]
                for j in _np.ndindex(tgt.shape):
                    tgt[j] = ite(zb(c), vb[j], tgt[j])
            else:
                a.o[idx] = ite(zb(c), vb[()], a.o[idx])
        return
    if _key_has(key, _is_symarr) or _key_has(key, lambda k: isinstance(k, (SArr, _np.ndarray, list))):
        key2 = tuple(concretize_array(k) if isinstance(k, SArr) else (int(k) if _is_symint(k) else k) for k in key)
        a.o[key2] = vo
        return
    # basic indexing with symbolic scalar ints -> ite store
    key = list(key)
    axis = 0
    for pos, k in enumerate(key):
        if _is_symint(k):
            n = a.o.shape[axis]
            tag, e = _in_range_or_concrete(k, n)
            if tag == "int":
                key[pos] = e
                _setitem(a, tuple(key), v)
                return
            for i in range(n):
                key[pos] = i
                old = _getitem(a, tuple(key))
                new = _ite_any(e == i, v, old)
                _setitem(a, tuple(key), new)
            return
        if k is not None and k is not Ellipsis:
            axis += 1
    raise AssertionError("unreachable")


# --------------------------------------------------------------------------------------
# module-level API
# --------------------------------------------------------------------------------------
def _anysym(*xs):
    """anything that must stay inside the shim: symbolic scalars or SArr (even concrete ones: SArr in -> SArr out)"""
    return builtins.any(_contains_sarr(x) for x in xs)


def _contains_sarr(x) -> bool:
    if isinstance(x, SArr) or is_sym(x):
        return True
    if isinstance(x, (list, tuple)):
        return builtins.any(_contains_sarr(e) for e in x)
    if isinstance(x, _np.ndarray) and x.dtype == object:
        return builtins.any(is_sym(e) for e in x.flat)
    return False


def _real(x):
    """demote a concrete SArr (possibly nested in lists/tuples) to real numpy"""
    if isinstance(x, SArr):
        c = x.concrete()
        if c is None:
            raise ShimUnsupported("internal: demoting symbolic array")
        return c
    if isinstance(x, list):
        return [_real(e) for e in x]
    if isinstance(x, tuple):
        return tuple(_real(e) for e in x)
    return x


def _passthrough(name):
    """decorator: delegate to real numpy when nothing symbolic is involved"""
    realf = getattr(_np, name)

    def deco(f):
        def g(*args, **kw):
            if not _anysym(*args) and not _anysym(*kw.values()):
                return realf(*[_real(a) for a in args], **{k: _real(v) for k, v in kw.items()})
            return f(*args, **kw)

        g.__name__ = name
        return g

    return deco


def asarray(x, dtype=None):
    return array(x, dtype=dtype, copy=False)


def array(x, dtype=None, copy=True, **kw):
    if isinstance(x, SArr):
        r = SArr(x.o.copy() if copy else x.o, x.kind, x.width)
        return r.astype(dtype) if dtype is not None and (_kind_of_dtype(dtype) != r.kind or _int_width(dtype)) else r
    if not _contains_sym(x):
        return _np.array(_real(x), dtype=dtype, **kw)
    k = _kind_of_any(x)
    r = SArr(_obj(x).copy(), k, _list_width(x) if k == "i" else None)
    return r.astype(dtype) if dtype is not None and (_kind_of_dtype(dtype) != k or _int_width(dtype)) else r


def _list_width(x):
    """dtype numpy would pick for a (nested) list of scalars: fixed-width only if every leaf is a numpy-typed integer scalar"""
    ws = []

    def walk(v):
        if isinstance(v, (list, tuple)):
            for e in v:
                if not walk(e):
                    return False
            return True
        if isinstance(v, SArr):
            ws.append(v.dtype if v.kind == "i" else None)
            return v.kind == "i"
        if isinstance(v, _np.ndarray):
            ws.append(v.dtype)
            return v.dtype.kind in "iu"
        t, w = _scalar_width(v)
        if not t:
            return False
        ws.append(_np.dtype(f"{'int' if w[1] else 'uint'}{w[0]}") if w else _np.dtype(_np.int64))
        return True

    if not walk(x) or not ws or builtins.any(w is None for w in ws):
        return None
    try:
        return _int_width(_np.result_type(*ws))
    except Exception:
        return None


def _filled(shape, v, dtype):
    if isinstance(shape, (int, _np.integer)) or type(shape) is SInt:
        shape = (shape,)
    shape = tuple(int(s) for s in shape)
    a = _np.empty(shape, dtype=object)
    a.fill(v)
    return SArr(a, _kind_of_dtype(dtype), _int_width(dtype) if _kind_of_dtype(dtype) == "i" else None)


def zeros(shape, dtype=float, **kw):
    k = _kind_of_dtype(dtype)
    return _filled(shape, {"b": False, "i": 0, "f": 0.0}.get(k, 0), dtype)


def ones(shape, dtype=float, **kw):
    k = _kind_of_dtype(dtype)
    return _filled(shape, {"b": True, "i": 1, "f": 1.0}.get(k, 1), dtype)


def empty(shape, dtype=float, **kw):
    return zeros(shape, dtype)


def full(shape, fill_value, dtype=None, **kw):
    if isinstance(shape, (int, _np.integer)):
        shape = (shape,)
    shape = tuple(int(s) for s in shape)
    fv = _obj(fill_value)
    if dtype is None:
        k = _kind_of_any(fill_value)
    else:
        k = _kind_of_dtype(dtype)
    a = _np.empty(shape, dtype=object)
    a[...] = _np.broadcast_to(fv, shape)
    if k in ("b", "i", "f"):
        a = _map1(lambda x: _cast(x, k), a)
    w = _int_width(dtype) if (dtype is not None and k == "i") else None
    if w:
        a = _map1(lambda x: _wrap_int(x, *w), a)
    return SArr(a, k, w)


def full_like(a, fill_value, dtype=None, **kw):
    shp = _shape_of(a)
    if dtype is None:
        dtype = a.dtype if isinstance(a, (SArr, _np.ndarray)) and a.dtype != object else _np_dtype_for(_kind_of_any(a))
    return full(shp, fill_value, dtype=dtype)


def zeros_like(a, dtype=None, **kw):
    return zeros(_shape_of(a), dtype if dtype is not None else (a.dtype if isinstance(a, (SArr, _np.ndarray)) and a.dtype != object else _np_dtype_for(_kind_of_any(a))))


def ones_like(a, dtype=None, **kw):
    return ones(_shape_of(a), dtype if dtype is not None else (a.dtype if isinstance(a, (SArr, _np.ndarray)) and a.dtype != object else _np_dtype_for(_kind_of_any(a))))


def _arith_kind(ka, kb):
    return _promote(ka, kb, "i") if not (ka == "b" and kb == "b") else "b"


@_passthrough("add")
def add(a, b):
    def f(x, y):
        return x + y

    ka, kb = _kind_of_any(a), _kind_of_any(b)
    if ka == "b" and kb == "b":
        return _binary(a, b, _e_or, lambda *_: "b")
    return _binary(a, b, f, lambda ka, kb: _promote(ka, kb, "i"), arith=True)


@_passthrough("subtract")
def subtract(a, b):
    return _binary(a, b, lambda x, y: x - y, lambda ka, kb: _promote(ka, kb, "i"), arith=True)


@_passthrough("multiply")
def multiply(a, b):
    ka, kb = _kind_of_any(a), _kind_of_any(b)
    if ka == "b" and kb == "b":
        return _binary(a, b, _e_and, lambda *_: "b")
    return _binary(a, b, lambda x, y: x * y, lambda ka, kb: _promote(ka, kb, "i"), arith=True)


@_passthrough("equal")
def equal(a, b):
    return _binary(a, b, _e_eq, lambda ka, kb: "b")


@_passthrough("not_equal")
def not_equal(a, b):
    return _binary(a, b, lambda x, y: _e_not(_e_eq(x, y)), lambda ka, kb: "b")


def _e_eq(x, y):
    if is_sym(x) or is_sym(y):
        kx, ky = _kind_of_value(x), _kind_of_value(y)
        if "U" in (kx, ky) or "O" in (kx, ky):
            return False
        if kx == "b" and ky == "b":
            return SBool(zb(x) == zb(y))
        return SBool(zn(x) == zn(y))
    return x == y


@_passthrough("less")
def less(a, b):
    return _binary(a, b, lambda x, y: x < y, lambda *_: "b")


@_passthrough("less_equal")
def less_equal(a, b):
    return _binary(a, b, lambda x, y: x <= y, lambda *_: "b")


@_passthrough("greater")
def greater(a, b):
    return _binary(a, b, lambda x, y: x > y, lambda *_: "b")


@_passthrough("greater_equal")
def greater_equal(a, b):
    return _binary(a, b, lambda x, y: x >= y, lambda *_: "b")


@_passthrough("logical_and")
def logical_and(a, b):
    return _binary(a, b, _e_and, lambda *_: "b")


bitwise_and = logical_and


@_passthrough("logical_or")
def logical_or(a, b):
    return _binary(a, b, _e_or, lambda *_: "b")


bitwise_or = logical_or


@_passthrough("logical_not")
def logical_not(a):
    if isinstance(a, SArr) or isinstance(a, _np.ndarray):
        return SArr(_map1(lambda x: _e_not(_cast(x, "b")), _obj(a)), "b")
    return _e_not(a)


def invert(a):
    return ~a


@_passthrough("absolute")
def absolute(a):
    if isinstance(a, (SArr, _np.ndarray, list, tuple)):
        w = _common_width(a) if _kind_of_any(a) == "i" else None
        f = (lambda x: _wrap_int(builtins.abs(x), *w)) if w else (lambda x: builtins.abs(_cast(x, "i") if _kind_of_value(x) == "b" else x))
        return SArr(_map1(f, _obj(a)), _promote(_kind_of_any(a), "i"), w)
    return builtins.abs(a)


abs = absolute


@_passthrough("negative")
def negative(a):
    return -a


@_passthrough("maximum")
def maximum(a, b):
    return _binary(a, b, _e_max, lambda ka, kb: _promote(ka, kb), keepw=True)


@_passthrough("minimum")
def minimum(a, b):
    return _binary(a, b, _e_min, lambda ka, kb: _promote(ka, kb), keepw=True)


def _reduce(a, axis, f2, init, kind_out, keepdims=False, width=None):
    o = _obj(a)
    if axis is None:
        acc = init
        for e in o.flat:
            acc = f2(acc, _py(e)) if acc is not None else _py(e)
        return acc
    if isinstance(axis, tuple):
        raise ShimUnsupported("reduction over tuple of axes")
    if axis < 0:
        axis += o.ndim
    n = o.shape[axis]
    rest = o.shape[:axis] + o.shape[axis + 1:]
    out = _np.empty(rest, dtype=object)
    for idx in _np.ndindex(rest):
        acc = init
        for i in range(n):
            e = _py(o[idx[:axis] + (i,) + idx[axis:]])
            acc = f2(acc, e) if acc is not None else e
        out[idx] = acc
    if out.ndim == 0:
        return out[()]
    return SArr(out, kind_out, width)


@_passthrough("sum")
def sum(a, axis=None, dtype=None, **kw):
    k = _kind_of_any(a)
    return _reduce(a, axis, lambda acc, e: acc + (_cast(e, "i") if k == "b" else e), 0, _promote(k, "i"))


@_passthrough("prod")
def prod(a, axis=None, **kw):
    k = _kind_of_any(a)
    return _reduce(a, axis, lambda acc, e: acc * (_cast(e, "i") if k == "b" else e), 1, _promote(k, "i"))


@_passthrough("all")
def all(a, axis=None, **kw):
    return _reduce(a, axis, lambda acc, e: _e_and(acc, _cast(e, "b")), True, "b")


@_passthrough("any")
def any(a, axis=None, **kw):
    return _reduce(a, axis, lambda acc, e: _e_or(acc, _cast(e, "b")), False, "b")


@_passthrough("amax")
def amax(a, axis=None, **kw):
    return _reduce(a, axis, _e_max, None, _kind_of_any(a), width=_common_width(a) if _kind_of_any(a) == "i" else None)


max = amax


@_passthrough("amin")
def amin(a, axis=None, **kw):
    return _reduce(a, axis, _e_min, None, _kind_of_any(a), width=_common_width(a) if _kind_of_any(a) == "i" else None)


min = amin


@_passthrough("cumsum")
def cumsum(a, axis=None, **kw):
    o = _obj(a)
    if o.ndim != 1 and axis is None:
        o = o.ravel()
    if o.ndim != 1:
        raise ShimUnsupported("cumsum on nd array")
    out = _np.empty(o.shape, dtype=object)
    acc = 0
    for i, e in enumerate(o):
        acc = acc + _py(e)
        out[i] = acc
    return SArr(out, _promote(_kind_of_any(a), "i"))


@_passthrough("argmax")
def argmax(a, axis=None, **kw):
    o = _obj(a)
    if axis is not None:
        if axis < 0:
            axis += o.ndim
        rest = o.shape[:axis] + o.shape[axis + 1:]
        out = _np.empty(rest, dtype=object)
        for idx in _np.ndindex(rest):
            vec = [o[idx[:axis] + (i,) + idx[axis:]] for i in range(o.shape[axis])]
            out[idx] = _argmax1(vec)
        return SArr(out, "i") if out.ndim else out[()]
    return _argmax1(list(o.flat))


@_passthrough("argmin")
def argmin(a, axis=None, **kw):
    o = _obj(a)
    neg = _map1(lambda x: -(_cast(x, "i") if _kind_of_value(x) == "b" else x), o)  # unbounded negation: no wrap
    return argmax(SArr(neg, _promote(_kind_of_any(a), "i")), axis=axis)


def _argmax1(vec):
    """index of first maximum"""
    vec = [_cast(_py(v), "i") if _kind_of_value(_py(v)) == "b" else _py(v) for v in vec]
    best_i = 0
    best_v = vec[0]
    for i in range(1, len(vec)):
        v = vec[i]
        if is_sym(v) or is_sym(best_v):
            c = zn(v) > zn(best_v)
            best_i = ite(c, i, best_i)
            best_v = ite(c, v, best_v)
        elif v > best_v:
            best_i, best_v = i, v
    return best_i


@_passthrough("where")
def where(cond, x=None, y=None):
    if x is None:
        c = concretize_array(cond) if isinstance(cond, SArr) else cond
        return _np.where(c)
    oc, ox, oy = _np.broadcast_arrays(_obj(cond), _obj(x), _obj(y))
    out = _np.empty(oc.shape, dtype=object)
    for idx in _np.ndindex(oc.shape):
        c = _py(oc[idx])
        if is_sym(c):
            out[idx] = ite(zb(c), ox[idx], oy[idx])
        else:
            out[idx] = _py(ox[idx] if c else oy[idx])
    k = _promote(_kind_of_any(x), _kind_of_any(y))
    return SArr(out, k, _common_width(x, y) if k == "i" else None)


@_passthrough("argwhere")
def argwhere(a):
    return _np.argwhere(concretize_array(a))


@_passthrough("nonzero")
def nonzero(a):
    return _np.nonzero(concretize_array(a))


def _struct(name):
    """structural numpy function applied to the object arrays (no element semantics)"""
    realf = getattr(_np, name)

    def g(*args, **kw):
        if not _anysym(*args) and not _anysym(*kw.values()):
            return realf(*[_real(a) for a in args], **{k: _real(v) for k, v in kw.items()})
        kinds = []
        arrs = []

        def conv(x):
            if isinstance(x, SArr):
                kinds.append(x.kind)
                arrs.append(x)
                return x.o
            if isinstance(x, _np.ndarray):
                kinds.append(_kind_of_any(x))
                arrs.append(x)
                return x.astype(object)
            if isinstance(x, (list, tuple)) and builtins.any(isinstance(e, (SArr, _np.ndarray, list, tuple)) or is_sym(e) for e in x):
                return type(x)(conv(e) for e in x)
            if is_sym(x):
                kinds.append(_kind_of_value(x))
                o = _np.empty((), dtype=object)
                o[()] = x
                return o
            return x

        # only the data operands (first positional argument, plus `values` of append/insert) decide the dtype
        data_args = list(args[:1]) + ([args[1]] if name in ("append",) and len(args) > 1 else []) + ([args[2]] if name == "insert" and len(args) > 2 else [])
        r = realf(*[conv(a) for a in args], **{k: conv(v) for k, v in kw.items()})
        kind = _promote(*kinds) if kinds else "O"
        width = None
        if kind == "i":
            flat = []
            for d in data_args:
                flat.extend(d if isinstance(d, (list, tuple)) and builtins.any(isinstance(e, (SArr, _np.ndarray)) for e in d) else [d])
            width = _common_width(*flat) if flat else None
        if isinstance(r, _np.ndarray):
            return SArr(r if r.dtype == object else r.astype(object), kind, width)
        if isinstance(r, (list, tuple)):
            return type(r)(SArr(e if e.dtype == object else e.astype(object), kind, width) if isinstance(e, _np.ndarray) else e for e in r)
        return r

    g.__name__ = name
    return g


vstack = _struct("vstack")
hstack = _struct("hstack")
stack = _struct("stack")
column_stack = _struct("column_stack")
concatenate = _struct("concatenate")
append = _struct("append")
flip = _struct("flip")
expand_dims = _struct("expand_dims")
repeat = _struct("repeat")
split = _struct("split")
delete = _struct("delete")
transpose = _struct("transpose")
ravel = _struct("ravel")
reshape = _struct("reshape")
squeeze = _struct("squeeze")
broadcast_to = _struct("broadcast_to")
tile = _struct("tile")
roll = _struct("roll")
insert = _struct("insert")
atleast_1d = _struct("atleast_1d")
atleast_2d = _struct("atleast_2d")
swapaxes = _struct("swapaxes")
moveaxis = _struct("moveaxis")
take = _struct("take")


def copy(a):
    return a.copy() if isinstance(a, (SArr, _np.ndarray)) else _np.copy(a)


@_passthrough("pad")
def pad(a, pad_width, mode="constant", constant_values=0, **kw):
    if mode != "constant":
        raise ShimUnsupported("pad mode != constant")
    o = _obj(a)
    pw = _np.array(pad_width)
    if pw.ndim == 0:
        pw = _np.array([[int(pw), int(pw)]] * o.ndim)
    elif pw.ndim == 1:
        pw = _np.array([list(pw)] * o.ndim)
    cv = _py(constant_values)
    if isinstance(cv, (list, tuple, _np.ndarray, SArr)):
        raise ShimUnsupported("pad with non-scalar constant")
    shp = tuple(o.shape[i] + int(pw[i][0]) + int(pw[i][1]) for i in range(o.ndim))
    out = _np.empty(shp, dtype=object)
    k = _kind_of_any(a)
    out.fill(_cast(cv, k) if k in ("b", "i", "f") else cv)
    sl = tuple(slice(int(pw[i][0]), int(pw[i][0]) + o.shape[i]) for i in range(o.ndim))
    out[sl] = o
    return SArr(out, k, _common_width(a) if k == "i" else None)


@_passthrough("array_equal")
def array_equal(a, b, **kw):
    if _shape_of(a) != _shape_of(b):
        return False
    oa, ob = _obj(a), _obj(b)
    acc = True
    for x, y in zip(oa.flat, ob.flat):
        acc = _e_and(acc, _e_eq(_py(x), _py(y)))
    return acc


@_passthrough("sort")
def sort(a, axis=-1, **kw):
    """sort along an axis; rows are compared elementwise with a compare-exchange network"""
    o = _obj(a).copy()
    if axis < 0:
        axis += o.ndim
    n = o.shape[axis]
    rest = o.shape[:axis] + o.shape[axis + 1:]
    for idx in _np.ndindex(rest):
        vec = [o[idx[:axis] + (i,) + idx[axis:]] for i in range(n)]
        # bubble network
        for i in range(n):
            for j in range(n - 1 - i):
                x, y = _py(vec[j]), _py(vec[j + 1])
                vec[j], vec[j + 1] = _e_min(x, y), _e_max(x, y)
        for i in range(n):
            o[idx[:axis] + (i,) + idx[axis:]] = vec[i]
    return SArr(o, _kind_of_any(a), _common_width(a) if _kind_of_any(a) == "i" else None)


@_passthrough("cross")
def cross(a, b, **kw):
    oa, ob = _obj(a), _obj(b)
    if oa.shape != (3,) or ob.shape != (3,):
        raise ShimUnsupported("cross only for 3-vectors")
    a0, a1, a2 = [_py(x) for x in oa]
    b0, b1, b2 = [_py(x) for x in ob]
    out = _np.empty(3, dtype=object)
    out[0] = a1 * b2 - a2 * b1
    out[1] = a2 * b0 - a0 * b2
    out[2] = a0 * b1 - a1 * b0
    return SArr(out, "i")


@_passthrough("searchsorted")
def searchsorted(a, v, side="left", **kw):
    """numpy's binary search, step for step (so that an array that is NOT sorted - e.g. running totals that wrapped around in a narrow
    integer dtype - gives what numpy gives): lo=0, hi=n; mid = lo + (hi-lo)//2; a[mid] < v (left) / <= v (right) ? lo = mid+1 : hi = mid"""
    o = _obj(a)
    if o.ndim != 1 or isinstance(v, (SArr, _np.ndarray, list, tuple)):
        raise ShimUnsupported("searchsorted only for 1-d array and scalar")
    elems = [_py(e) for e in o]

    def bs(lo, hi):
        if lo >= hi:
            return lo
        mid = lo + ((hi - lo) >> 1)
        c = (elems[mid] < v) if side == "left" else (elems[mid] <= v)
        if not is_sym(c):
            return bs(mid + 1, hi) if c else bs(lo, mid)
        return ite(zb(c), bs(mid + 1, hi), bs(lo, mid))

    return bs(0, len(elems))


@_passthrough("unique")
def unique(a, **kw):
    return _np.unique(concretize_array(a), **kw)


@_passthrough("lexsort")
def lexsort(keys, **kw):
    return _np.lexsort(tuple(concretize_array(k) if isinstance(k, SArr) else k for k in keys), **kw)


@_passthrough("isnan")
def isnan(a):
    return SArr(_map1(lambda x: False, _obj(a)), "b")


@_passthrough("nanmin")
def nanmin(a, **kw):
    return amin(a, **kw)


@_passthrough("nanmax")
def nanmax(a, **kw):
    return amax(a, **kw)


def shape(a):
    return _shape_of(a)


def ndim(a):
    return len(_shape_of(a))


class _Linalg:
    @staticmethod
    def norm(x, ord=None, axis=None, **kw):
        if not _anysym(x):
            return _np.linalg.norm(_real(x), ord=ord, axis=axis, **kw)
        if ord == 1:
            r = sum(absolute(x), axis=axis)
            if not isinstance(r, SArr):  # numpy returns a 0-d float scalar with array methods
                o = _np.empty((), dtype=object)
                o[()] = r
                r = SArr(o, "i")
            return r
        # euclidean norm of a symbolic integer vector: return a lazy value that supports the
        # comparisons the repository uses (== 1, <= 1.1, >= d) via the squared integer form
        sq = sum(multiply(x, x), axis=axis)
        return _NormSq.wrap(sq)


class _NormSq:
    """sqrt(s) for a symbolic non-negative integer s, comparable with non-negative constants"""

    def __init__(self, s):
        self.s = s

    @staticmethod
    def wrap(sq):
        if isinstance(sq, SArr):
            out = _np.empty(sq.o.shape, dtype=object)
            for idx, e in _np.ndenumerate(sq.o):
                out[idx] = _NormSq(e)
            return SArr(out, "O")
        return _NormSq(sq)

    def _cmp(self, other, op):
        other = _py(other)
        if isinstance(other, (int, float)) and other >= 0:
            from fractions import Fraction

            t = Fraction(other) ** 2  # sqrt(s) op other  <=>  s op other^2   (both sides >= 0)
            s = zi(self.s)
            tr = z3.RealVal(str(t))
            return SBool(op(z3.ToReal(s), tr))
        raise ShimUnsupported("norm compared with a non-constant")

    def __eq__(self, o):
        return self._cmp(o, lambda a, b: a == b)

    def __ne__(self, o):
        return self._cmp(o, lambda a, b: a != b)

    def __le__(self, o):
        return self._cmp(o, lambda a, b: a <= b)

    def __lt__(self, o):
        return self._cmp(o, lambda a, b: a < b)

    def __ge__(self, o):
        return self._cmp(o, lambda a, b: a >= b)

    def __gt__(self, o):
        return self._cmp(o, lambda a, b: a > b)

    __hash__ = None


linalg = _Linalg()

ndarray = (SArr, _np.ndarray)


class _ShimModule(types.ModuleType):
    """module object usable as `np`: overrides from this file, everything else real numpy"""

    def __init__(self, overrides: dict):
        super().__init__("snp")
        self.__dict__.update(overrides)

    def __getattr__(self, name):
        return getattr(_np, name)


_EXPORT_SKIP = {"builtins", "itertools", "types", "z3", "annotations"}


def make_module(**extra) -> _ShimModule:
    ov = {k: v for k, v in globals().items()
          if not k.startswith("_") and k not in _EXPORT_SKIP and not isinstance(v, types.ModuleType)}
    ov.pop("ndarray", None)  # keep np.ndarray real so isinstance(x, np.ndarray) keeps its meaning
    ov["ndarray"] = _NdarrayMeta("ndarray", (), {})
    ov.update(extra)
    return _ShimModule(ov)


class _NdarrayMeta(type):
    """stand-in for np.ndarray whose isinstance() accepts both real arrays and SArr"""

    def __instancecheck__(cls, inst):
        return isinstance(inst, (SArr, _np.ndarray))

    def __call__(cls, *a, **k):
        return _np.ndarray(*a, **k)
