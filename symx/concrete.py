"""Independent concrete reference functions on real connection arrays (used by replays)."""

from __future__ import annotations

from collections import deque

import numpy as np


def conn(cl, a, b) -> bool:
    (ai, aj), (bi, bj) = a, b
    if abs(ai - bi) + abs(aj - bj) != 1:
        return False
    d = 0 if ai != bi else 1
    return bool(cl[d, min(ai, bi), min(aj, bj)])


def neighbors(cl, u):
    r, c = cl.shape[1:]
    out = []
    for v in ((u[0] + 1, u[1]), (u[0], u[1] + 1), (u[0] - 1, u[1]), (u[0], u[1] - 1)):
        if 0 <= v[0] < r and 0 <= v[1] < c and conn(cl, u, v):
            out.append(v)
    return out


def bfs(cl, s):
    dist = {tuple(s): 0}
    q = deque([tuple(s)])
    while q:
        u = q.popleft()
        for v in neighbors(cl, u):
            if v not in dist:
                dist[v] = dist[u] + 1
                q.append(v)
    return dist


def dist(cl, s, e):
    return bfs(cl, s).get(tuple(e))


def component(cl, s):
    return set(bfs(cl, s))


def n_edges(cl) -> int:
    r, c = cl.shape[1:]
    return int(cl[0, : r - 1, :].sum() + cl[1, :, : c - 1].sum())


def boundary_clear(cl) -> bool:
    return not cl[0, -1, :].any() and not cl[1, :, -1].any()


def is_spanning_tree(cl) -> bool:
    r, c = cl.shape[1:]
    return boundary_clear(cl) and n_edges(cl) == r * c - 1 and len(component(cl, (0, 0))) == r * c


def degree(cl, u) -> int:
    return len(neighbors(cl, u))


def check_solution(cl, sol, shortest=True):
    """None if `sol` is a valid (shortest) simple path in `cl`, else a reason"""
    r, c = cl.shape[1:]
    sol = [tuple(int(x) for x in p) for p in sol]
    if len(sol) == 0:
        return "empty solution"
    if not all(0 <= i < r and 0 <= j < c for i, j in sol):
        return f"solution leaves the grid: {sol}"
    if len(set(sol)) != len(sol):
        return f"solution repeats a cell: {sol}"
    for a, b in zip(sol, sol[1:]):
        if not conn(cl, a, b):
            return f"solution step {a}->{b} is not a connection"
    if shortest:
        d = dist(cl, sol[0], sol[-1])
        if d != len(sol) - 1:
            return f"solution has {len(sol) - 1} steps, shortest is {d}"
    return None
