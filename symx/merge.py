"""State merging for the pattern

        if <cond>:
            <target>[<index>] = <value>          (no else branch)

The statement is rewritten - from the function's *current* source, at run time - into

        <target>[<index>] = __ite__(<cond>, <value>, <target>[<index>])

so that a symbolic condition produces an if-then-else term instead of a fork (one path instead of 2^k
for k such statements).  Sound when evaluating <index>/<value> has no side effects and cannot raise
(subscripts with loop counters and constants); the rewritten function is validated against the original
on concrete inputs by the harnesses that use it.
"""

from __future__ import annotations

import ast
import inspect
import textwrap

import z3

from .core import Inconclusive, SBool, is_sym, zb
from .snp import SArr, _ite_any


def __ite__(cond, new, old):
    if is_sym(cond):
        return _ite_any(zb(cond), new, old)
    if isinstance(cond, SArr):
        if cond.o.size != 1:
            raise ValueError("The truth value of an array with more than one element is ambiguous.")
        return __ite__(cond.o.flat[0], new, old)
    return new if cond else old


def __not__(x):
    if is_sym(x):
        return SBool(z3.Not(zb(x)))
    if isinstance(x, SArr) and x.o.size == 1:
        return __not__(x.o.flat[0])
    return not x


class _NotRewriter(ast.NodeTransformer):
    """`not e` -> `__not__(e)` inside a merged condition (plain `not` would call bool() and fork)"""

    def visit_UnaryOp(self, node):
        self.generic_visit(node)
        if isinstance(node.op, ast.Not):
            return ast.copy_location(ast.Call(func=ast.Name(id="__not__", ctx=ast.Load()), args=[node.operand], keywords=[]), node)
        return node


class _Rewriter(ast.NodeTransformer):
    def __init__(self):
        self.count = 0

    def visit_If(self, node: ast.If):
        self.generic_visit(node)
        if node.orelse or len(node.body) != 1:
            return node
        st = node.body[0]
        if not (isinstance(st, ast.Assign) and len(st.targets) == 1 and isinstance(st.targets[0], ast.Subscript)):
            return node
        tgt = st.targets[0]
        load = ast.Subscript(value=tgt.value, slice=tgt.slice, ctx=ast.Load())
        test = _NotRewriter().visit(node.test)
        self.count += 1
        tmp = f"__mc{self.count}"
        # __mcN = <cond>
        # if __is_sym__(__mcN): target = __ite__(__mcN, value, target)      (symbolic condition: merged store)
        # elif __mcN:           target = value                              (concrete condition: the original statement)
        assign_c = ast.Assign(targets=[ast.Name(id=tmp, ctx=ast.Store())], value=test)
        merged_store = ast.Assign(targets=[tgt], value=ast.Call(func=ast.Name(id="__ite__", ctx=ast.Load()),
                                                               args=[ast.Name(id=tmp, ctx=ast.Load()), st.value, load], keywords=[]))
        import copy as _copy

        plain = ast.If(test=ast.Name(id=tmp, ctx=ast.Load()), body=[_copy.deepcopy(st)], orelse=[])
        outer = ast.If(test=ast.Call(func=ast.Name(id="__is_sym__", ctx=ast.Load()), args=[ast.Name(id=tmp, ctx=ast.Load())], keywords=[]),
                       body=[merged_store], orelse=[plain])
        return [ast.copy_location(assign_c, node), ast.copy_location(outer, node)]


def __is_sym__(x):
    if isinstance(x, SArr) and x.o.size == 1:
        x = x.o.flat[0]
    return is_sym(x)


def merged(func):
    """returns (new function, number of merged statements)"""
    f = inspect.unwrap(func)
    if getattr(f, "__closure__", None):
        raise Inconclusive(f"cannot merge {f.__qualname__}: it has free variables")
    src = textwrap.dedent(inspect.getsource(f))
    tree = ast.parse(src)
    fd = tree.body[0]
    fd.decorator_list = []
    rw = _Rewriter()
    tree = ast.fix_missing_locations(rw.visit(tree))
    ns = dict(f.__globals__)
    ns["__ite__"] = __ite__
    code = compile(tree, filename=f"<merged {f.__qualname__}>", mode="exec")
    # run in the function's real globals (so later rebinding of `np` etc. is seen) with __ite__ added
    g = f.__globals__
    g.setdefault("__ite__", __ite__)
    g.setdefault("__not__", __not__)
    g.setdefault("__is_sym__", __is_sym__)
    loc: dict = {}
    exec(code, g, loc)
    new = loc[fd.name]
    new.__qualname__ = f.__qualname__ + "<merged>"
    return new, rw.count
