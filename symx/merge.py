"""State merging for the pattern

        if <cond>:
            <target>[<index>] = <value>          (no else branch)

The statement is rewritten - from the function's *current* source, at run time - into

        <target>[<index>] = __ite__(<cond>, <value>, <target>[<index>])

so that a symbolic condition produces an if-then-else term instead of a fork (one path instead of 2^k
for k such statements).  Sound when evaluating <index>/<value> has no side effects and cannot raise
(subscripts with loop counters and constants); the rewritten function is validated against the original
on concrete inputs by the harnesses that use it.
"""

from __future__ import annotations

import ast
import inspect
import textwrap

import z3

from .core import Inconclusive, SBool, is_sym, zb
from .snp import SArr, _ite_any


def __ite__(cond, new, old):
    if is_sym(cond):
        return _ite_any(zb(cond), new, old)
    if isinstance(cond, SArr):
        if cond.o.size != 1:
            raise ValueError("The truth value of an array with more than one element is ambiguous.")
        return __ite__(cond.o.flat[0], new, old)
    return new if cond else old


class _Rewriter(ast.NodeTransformer):
    def __init__(self):
        self.count = 0

    def visit_If(self, node: ast.If):
        self.generic_visit(node)
        if node.orelse or len(node.body) != 1:
            return node
        st = node.body[0]
        if not (isinstance(st, ast.Assign) and len(st.targets) == 1 and isinstance(st.targets[0], ast.Subscript)):
            return node
        tgt = st.targets[0]
        load = ast.Subscript(value=tgt.value, slice=tgt.slice, ctx=ast.Load())
        call = ast.Call(func=ast.Name(id="__ite__", ctx=ast.Load()), args=[node.test, st.value, load], keywords=[])
        self.count += 1
        return ast.copy_location(ast.Assign(targets=[tgt], value=call), node)


def merged(func):
    """returns (new function, number of merged statements)"""
    f = inspect.unwrap(func)
    if getattr(f, "__closure__", None):
        raise Inconclusive(f"cannot merge {f.__qualname__}: it has free variables")
    src = textwrap.dedent(inspect.getsource(f))
    tree = ast.parse(src)
    fd = tree.body[0]
    fd.decorator_list = []
    rw = _Rewriter()
    tree = ast.fix_missing_locations(rw.visit(tree))
    ns = dict(f.__globals__)
    ns["__ite__"] = __ite__
    code = compile(tree, filename=f"<merged {f.__qualname__}>", mode="exec")
    # run in the function's real globals (so later rebinding of `np` etc. is seen) with __ite__ added
    g = f.__globals__
    g.setdefault("__ite__", __ite__)
    loc: dict = {}
    exec(code, g, loc)
    new = loc[fd.name]
    new.__qualname__ = f.__qualname__ + "<merged>"
    return new, rw.count
