"""Randomness as input: stubs for `random`, `np.random` and `numpy_rng` whose draws are fresh
symbolic values constrained only by each call's contract, plus scripted twins that feed the
draws of a counterexample back into the real code for replay.

Draw k is the named input `rng{k}` (in call order), so a counterexample's inputs contain the whole
draw sequence.
"""

from __future__ import annotations

import itertools
import math
from fractions import Fraction

import numpy as np
import z3

from .core import Inconclusive, PathAbort, SInt, SReal, Truncated, cur, fresh_int, fresh_real, zi
from .snp import SArr

MAX_FULL_PERM = 3  # shuffles of <= this many items explore every permutation
_REPRESENTATIVES = ("identity", "reverse", "rotate")


def perm_from_index(n: int, k: int) -> list[int]:
    if n <= MAX_FULL_PERM:
        return list(list(itertools.permutations(range(n)))[k])
    if k == 0:
        return list(range(n))
    if k == 1:
        return list(range(n - 1, -1, -1))
    return list(range(1, n)) + [0]


def n_perms(n: int) -> int:
    return math.factorial(n) if n <= MAX_FULL_PERM else len(_REPRESENTATIVES)


class _Draws:
    """shared draw counter / source: symbolic (fresh variables) or scripted (recorded values)"""

    def __init__(self, script: dict | None = None, max_draws: int | None = None, split: dict | None = None):
        # split: {"rngK": ["eq", v] | ["notin", [v...]]} restricts a draw so that several jobs partition the executions
        self.split = split or {}
        self.n = 0
        self.n_unit = 0
        self.script = script
        self.max_draws = max_draws
        self.log: list = []

    def _name(self):
        k = self.n
        self.n += 1
        if self.max_draws is not None and self.n > self.max_draws:
            raise Truncated("draw bound")
        return f"rng{k}"

    def int_in(self, lo, hi_incl, kind="int", exclude=()):
        """integer draw in [lo, hi_incl]"""
        name = self._name()
        lo, hi_incl = int(lo), int(hi_incl)
        if lo > hi_incl:
            raise ValueError("empty range for randint")  # as the real library would
        if self.script is not None:
            v = int(self.script.get(name, lo))
            if not lo <= v <= hi_incl:
                v = min(max(v, lo), hi_incl)
            if exclude and v in exclude:
                # sampling without replacement never repeats a value in the real library either
                rest = [x for x in range(lo, hi_incl + 1) if x not in exclude]
                if not rest:
                    raise ValueError("Cannot take a larger sample than population when 'replace=False'")
                v = rest[0]
            self.log.append((name, kind, v))
            return v
        if lo > hi_incl:
            raise ValueError("empty range for randint")  # as the real library would
        # a fresh draw from a finite range: every value is feasible by construction, so the fork needs
        # no solver query; the chosen value is still recorded as input rng<k> for counterexamples
        vals = list(range(lo, hi_incl + 1))
        pa = self.split.get("_pin_after")
        if pa is not None and self.n - 1 >= pa[0]:
            # this instance explores only the executions that agree with one seeded continuation after the first pa[0] draws
            # (large grids: the full decision tree is out of reach; the draws are still recorded as inputs)
            import zlib as _z

            vals = [vals[_z.crc32(f"{pa[1]}:{name}".encode()) % len(vals)]]
        if name in self.split and self.split[name][0] in ("eq", "notin"):
            kind_, val = self.split[name]
            vals = [v for v in vals if (v == val if kind_ == "eq" else v not in val)]
        if exclude:
            vals = [v for v in vals if v not in exclude]
        if not vals:
            raise PathAbort("no value left for this draw")
        c = cur()
        v = vals[c.choose(len(vals))]
        c.inputs[name] = z3.IntVal(v)
        return v

    def unit(self):
        """real draw in [0, 1)"""
        name = self._name()
        if self.script is not None:
            v = self.script.get(name, 0)
            if isinstance(v, (list, tuple)):
                v = float(Fraction(int(v[0]), int(v[1])))
            v = float(v)
            if v >= 1.0:
                v = math.nextafter(1.0, 0.0)
            self.log.append((name, "unit", v))
            return v
        uk = f"unit{self.n_unit}"  # ordinal among the real-valued draws, whatever integer draws came before
        self.n_unit += 1
        if uk in self.split:
            # this instance fixes the draw (sibling instances / other seeds cover other values): recorded as an input all the same
            v = float(self.split[uk][1])
            cur().inputs[name] = z3.RealVal(repr(v))
            return v
        return fresh_real(name, 0, 1)

    def perm(self, n):
        if n <= 1:
            return list(range(n))
        k = self.int_in(0, n_perms(n) - 1, kind="perm")
        return perm_from_index(n, int(k))


class SymRandomModule:
    """stand-in for the `random` module"""

    def __init__(self, draws: _Draws):
        self._d = draws

    def seed(self, *a, **k):
        pass

    def choice(self, seq):
        if len(seq) == 0:
            raise IndexError("Cannot choose from an empty sequence")
        return seq[self._d.int_in(0, len(seq) - 1)]

    def randint(self, a, b):
        return self._d.int_in(a, b)

    def random(self):
        return self._d.unit()

    def shuffle(self, x):
        p = self._d.perm(len(x))
        x[:] = [x[i] for i in p]


class SymNpRandom:
    """stand-in for `np.random` (the legacy global RNG namespace)"""

    def __init__(self, draws: _Draws):
        self._d = draws

    def seed(self, *a, **k):
        pass

    def randint(self, low, high=None, size=None, dtype=int):
        if high is None:
            low, high = 0, low
        if size is None and not isinstance(high, (np.ndarray, SArr, list, tuple)):
            return self._d.int_in(low, int(high) - 1)
        n = size if size is not None else len(high)
        if isinstance(n, tuple):
            if len(n) != 1:
                raise Inconclusive("randint with nd size not modelled")
            n = n[0]
        his = np.broadcast_to(np.asarray(high), (n,))
        los = np.broadcast_to(np.asarray(low), (n,))
        vals = [self._d.int_in(int(l), int(h) - 1) for l, h in zip(los, his)]
        if self._d.script is not None:
            return np.array(vals)
        return SArr(np.array(vals, dtype=object), "i")

    def choice(self, a, size=None, replace=True, p=None):
        if p is not None:
            raise Inconclusive("weighted choice not modelled")
        n = int(a) if isinstance(a, (int, np.integer)) else len(a)
        pick = (lambda i: i) if isinstance(a, (int, np.integer)) else (lambda i: a[i])
        if size is None:
            if n <= 0:
                raise ValueError("a must be non-empty")
            return pick(self._d.int_in(0, n - 1))
        k = int(size)
        if not replace and k > n:
            raise ValueError("Cannot take a larger sample than population when 'replace=False'")
        vals = []
        for _ in range(k):
            v = self._d.int_in(0, n - 1, exclude=tuple(vals) if not replace else ())
            vals.append(v)
        if self._d.script is not None:
            return np.array([pick(v) for v in vals])
        if isinstance(a, (int, np.integer)):
            return SArr(np.array(vals, dtype=object), "i")
        return [pick(v) for v in vals]

    def rand(self, *shape):
        if not shape:
            return self._d.unit()
        shape = tuple(int(s) for s in shape)
        out = np.empty(shape, dtype=object)
        for idx in np.ndindex(shape):
            out[idx] = self._d.unit()
        if self._d.script is not None:
            return out.astype(float)
        return SArr(out, "f")

    def random(self, size=None):
        return self.rand(*((size,) if isinstance(size, int) else (size or ())))

    def shuffle(self, x):
        n = len(x)
        p = self._d.perm(n)
        if isinstance(x, SArr):
            x.o[...] = x.o[p]
        else:
            x[...] = x[p]

    def permutation(self, n):
        return np.array(self._d.perm(int(n)))


class SymGenerator:
    """stand-in for `numpy_rng = np.random.default_rng(...)`"""

    def __init__(self, draws: _Draws):
        self._d = draws

    def shuffle(self, x, axis=0):
        if axis != 0:
            raise Inconclusive("Generator.shuffle axis != 0 not modelled")
        n = len(x)
        p = self._d.perm(n)
        if isinstance(x, SArr):
            x.o[...] = x.o[p]
        elif isinstance(x, np.ndarray):
            x[...] = x[p]
        else:
            x[:] = [x[i] for i in p]

    def permuted(self, x, axis=None, out=None):
        """independently permute each slice along `axis` (only the (E,2,2) axis=1 use is modelled)"""
        if axis != 1 or x.ndim != 3:
            raise Inconclusive("Generator.permuted only modelled for axis=1 on 3-d arrays")
        tgt = out if out is not None else x.copy()
        src = x.o.copy() if isinstance(x, SArr) else x.copy()
        n = src.shape[1]
        for i in range(src.shape[0]):
            for j in range(src.shape[2]):
                p = self._d.perm(n)
                col = src[i, :, j][p]
                if isinstance(tgt, SArr):
                    tgt.o[i, :, j] = col
                else:
                    tgt[i, :, j] = col
        return tgt

    def random(self, size=None):
        return SymNpRandom(self._d).rand(*((size,) if isinstance(size, int) else (size or ())))

    def integers(self, low, high=None, size=None, **kw):
        return SymNpRandom(self._d).randint(low, high, size)


def symbolic_rng(max_draws=None, split=None):
    d = _Draws(None, max_draws, split)
    return d, SymRandomModule(d), SymNpRandom(d), SymGenerator(d)


def scripted_rng(inputs: dict):
    d = _Draws(dict(inputs))
    return d, SymRandomModule(d), SymNpRandom(d), SymGenerator(d)


class RealNpWithRandom:
    """real numpy whose `.random` is replaced (used when replaying scripted draws on the real code)"""

    def __init__(self, npr):
        self.random = npr

    def __getattr__(self, name):
        return getattr(np, name)
