"""Engine S: a path-forking symbolic executor over z3 that runs real Python code.

Symbolic values (SBool / SInt / SReal) are thin wrappers around z3 terms.  Python's own
control flow drives exploration: every `bool()` of a symbolic boolean asks the solver which
outcomes are feasible under the current path condition and forks; every `__index__` /
`__int__` / `__hash__` concretises by forking over the feasible values.  Exploration is
re-execution DFS with a replayable decision schedule.

A harness is a function `run(ctx) -> list[(name, z3 BoolRef)]` (obligations).  Every
obligation is discharged by `check(PC and not ob)`; `unsat` = discharged for every input on
that path, `sat` = model = concrete counterexample (replayed against the real code by the
caller), `unknown` = inconclusive.
"""

from __future__ import annotations

import time
import z3

__all__ = [
    "PathAbort", "Inconclusive", "ShimUnsupported", "Ctx", "SBool", "SInt", "SReal",
    "zb", "zi", "zn", "is_sym", "explore", "ExploreResult", "fresh_bool", "fresh_int",
    "fresh_real", "assume", "cur",
]


MAX_VALUES_PER_CONCRETISATION = 6_000
STR_CONCRETISES = False  # str()/format() of a symbolic boolean forks to "True"/"False" (set by harnesses whose code renders fields)


class PathAbort(BaseException):
    """infeasible or deliberately pruned path (never caught by `except Exception`)"""


class Truncated(PathAbort):
    """path cut by a stated bound (counted, outside the claim)"""


class Inconclusive(Exception):
    """harness/engine problem: the run proves nothing (exit code 2)"""


class ShimUnsupported(Inconclusive):
    pass


# --------------------------------------------------------------------------------------
# context
# --------------------------------------------------------------------------------------
class Ctx:
    cur: "Ctx | None" = None

    def __init__(self, schedule=(), solver_timeout_ms: int = 60_000):
        self.solver = z3.Solver()
        self.solver.set("timeout", solver_timeout_ms)
        self.schedule = list(schedule)
        self.trace: list[tuple] = []
        self.nq = 0
        self.tq = 0.0
        self.n_fresh = 0
        self.inputs: dict[str, z3.ExprRef] = {}  # named input variables (for cex extraction)
        self.notes: dict = {}
        self.truncated = False
        self.var_bounds: dict = {}  # name of a fresh integer input -> (lo, hi) as declared (None = unbounded side)

    # -- solver ---------------------------------------------------------------------
    def check(self, *extra):
        t = time.perf_counter()
        r = self.solver.check(*extra)
        self.tq += time.perf_counter() - t
        self.nq += 1
        if r == z3.unknown:
            raise Inconclusive(f"solver returned unknown: {self.solver.reason_unknown()}")
        return r

    def add(self, *es):
        self.solver.add(*es)

    # -- decisions ------------------------------------------------------------------
    def branch(self, e) -> bool:
        e = z3.simplify(e)
        if z3.is_true(e):
            return True
        if z3.is_false(e):
            return False
        i = len(self.trace)
        if i < len(self.schedule):
            d = self.schedule[i]
            if d[0] != "b":
                raise Inconclusive("non-deterministic re-execution (expected branch decision)")
            take, other = d[1], d[2]
        else:
            can_t = self.check(e) == z3.sat
            can_f = self.check(z3.Not(e)) == z3.sat
            if can_t and can_f:
                take, other = True, True
            elif can_t:
                take, other = True, False
            elif can_f:
                take, other = False, False
            else:
                raise PathAbort("infeasible")
        self.trace.append(("b", take, other))
        self.solver.add(e if take else z3.Not(e))
        return take

    def concretize(self, e):
        """fork over all feasible values of int term `e`; returns a Python int"""
        e = z3.simplify(e)
        if z3.is_int_value(e):
            return e.as_long()
        rejected = 0
        while True:
            rejected += 1
            if rejected > MAX_VALUES_PER_CONCRETISATION:
                raise Inconclusive(f"concretisation of {e} enumerated more than {MAX_VALUES_PER_CONCRETISATION} values (unbounded term?)")
            i = len(self.trace)
            if i < len(self.schedule):
                d = self.schedule[i]
                if d[0] != "v":
                    raise Inconclusive("non-deterministic re-execution (expected value decision)")
                take, other, v = d[1], d[2], d[3]
            else:
                if self.check() != z3.sat:
                    raise PathAbort("infeasible")
                mv = self.solver.model().eval(e, model_completion=True)
                if not z3.is_int_value(mv):
                    raise Inconclusive(f"cannot concretise {e}: model value {mv}")
                v = mv.as_long()
                other = self.check(e != v) == z3.sat
                take = True
            self.trace.append(("v", take, other, v))
            if take:
                self.solver.add(e == v)
                return v
            self.solver.add(e != v)

    def concretize_bool(self, e) -> bool:
        return self.branch(e)

    def choose_value(self, e, candidates):
        """concretise int term `e` over an explicit finite candidate list: one feasibility query per
        candidate at the first visit (linear), none on re-execution"""
        e = z3.simplify(e)
        if z3.is_int_value(e):
            return e.as_long()
        i = len(self.trace)
        if i < len(self.schedule):
            d = self.schedule[i]
            if d[0] != "c" or len(d) < 4:
                raise Inconclusive("non-deterministic re-execution (expected value-choice decision)")
            k, vals = d[1], d[3]
        else:
            vals = [v for v in candidates if self.check(e == v) == z3.sat]
            k = 0
            if not vals:
                raise PathAbort("infeasible")
        self.trace.append(("c", k, len(vals), vals))
        self.solver.add(e == vals[k])
        return vals[k]

    def choose(self, n: int) -> int:
        """solver-free decision among n alternatives that are all feasible by construction
        (e.g. an unconstrained fresh draw from a finite range); returns the index taken"""
        if n <= 0:
            raise PathAbort("empty choice")
        if n == 1:
            return 0
        i = len(self.trace)
        if i < len(self.schedule):
            d = self.schedule[i]
            if d[0] != "c" or d[2] != n:
                raise Inconclusive("non-deterministic re-execution (expected choice decision)")
            k = d[1]
        else:
            k = 0
        self.trace.append(("c", k, n))
        return k


def cur() -> Ctx:
    c = Ctx.cur
    if c is None:
        raise Inconclusive("symbolic value used outside an exploration context")
    return c


def assume(e) -> None:
    """add an assumption to the path condition (must be placed before the code it constrains)"""
    cur().solver.add(zb(e) if not isinstance(e, z3.ExprRef) else e)


# --------------------------------------------------------------------------------------
# symbolic values
# --------------------------------------------------------------------------------------
def is_sym(x) -> bool:
    return type(x) in (SBool, SInt, SReal)


def zb(x):
    t = type(x)
    if t is SBool:
        return x.e
    if t is bool:
        return z3.BoolVal(x)
    if isinstance(x, z3.BoolRef):
        return x
    try:
        import numpy as _np

        if isinstance(x, _np.bool_):
            return z3.BoolVal(bool(x))
    except Exception:
        pass
    if t is SInt:
        return x.e != 0
    if isinstance(x, int):
        return z3.BoolVal(bool(x))
    raise TypeError(f"not a boolean: {x!r} ({type(x)})")


def zi(x):
    t = type(x)
    if t is SInt:
        return x.e
    if t is SBool:
        return z3.If(x.e, 1, 0)
    if t is bool or t is int:
        return z3.IntVal(int(x))
    if isinstance(x, z3.ArithRef):
        return x
    import numpy as _np

    if isinstance(x, (_np.integer, _np.bool_)):
        return z3.IntVal(int(x))
    raise TypeError(f"not an integer: {x!r} ({type(x)})")


def zn(x):
    """numeric term (int or real)"""
    t = type(x)
    if t is SReal:
        return x.e
    if t is float:
        return z3.RealVal(repr(x))
    import numpy as _np

    if isinstance(x, _np.floating):
        return z3.RealVal(repr(float(x)))
    return zi(x)


class SBool:
    __slots__ = ("e",)

    def __init__(self, e):
        self.e = e

    # report as bool to isinstance()
    @property
    def __class__(self):
        return bool

    def __bool__(self):
        r = cur().branch(self.e)
        self.e = z3.BoolVal(r)
        return r

    def __invert__(self):
        return SBool(z3.Not(self.e))

    def __and__(self, o):
        if type(o) is SInt:
            return NotImplemented
        return SBool(z3.And(self.e, zb(o)))

    __rand__ = __and__

    def __or__(self, o):
        if type(o) is SInt:
            return NotImplemented
        return SBool(z3.Or(self.e, zb(o)))

    __ror__ = __or__

    def __xor__(self, o):
        return SBool(z3.Xor(self.e, zb(o)))

    __rxor__ = __xor__

    def __eq__(self, o):
        if type(o) is SBool or isinstance(o, (bool,)):
            return SBool(self.e == zb(o))
        try:
            return SInt(zi(self)) == o
        except TypeError:
            return NotImplemented

    def __ne__(self, o):
        r = self.__eq__(o)
        return r if r is NotImplemented else ~r

    def __hash__(self):
        return hash(bool(self))

    def __index__(self):
        return int(bool(self))

    __int__ = __index__

    # arithmetic: behave like int 0/1
    def _asint(self):
        return SInt(z3.If(self.e, 1, 0))

    def __add__(self, o):
        return self._asint() + o

    def __radd__(self, o):
        return o + self._asint()

    def __sub__(self, o):
        return self._asint() - o

    def __rsub__(self, o):
        return o - self._asint()

    def __mul__(self, o):
        return self._asint() * o

    __rmul__ = __mul__

    def __lt__(self, o):
        return self._asint() < o

    def __le__(self, o):
        return self._asint() <= o

    def __gt__(self, o):
        return self._asint() > o

    def __ge__(self, o):
        return self._asint() >= o

    def __neg__(self):
        return -self._asint()

    def __abs__(self):
        return self._asint()

    def __repr__(self):
        return f"SBool({self.e})"

    def __str__(self):
        if STR_CONCRETISES:
            return str(bool(self))
        return self.__repr__()


def _lit(e):
    """Python value of a numeral term, else None"""
    if z3.is_int_value(e):
        return e.as_long()
    return None


def _mk(r):
    if z3.is_bool(r):
        if z3.is_true(r):
            return True
        if z3.is_false(r):
            return False
        return SBool(r)
    if r.is_real():
        return SReal(r)
    v = _lit(r)
    return SInt(r) if v is None else v


def _num_binop(op, rop=False):
    def f(self, o):
        try:
            b = zn(o)
        except TypeError:
            return NotImplemented
        a = self.e
        if _TYPED_SCALAR_HOOK is not None and type(self) is SInt and (self.w is not None or getattr(o, "w", None) is not None):
            r = op(b, a) if rop else op(a, b)
            if not r.is_real():
                return _TYPED_SCALAR_HOOK(self, o, SInt(z3.simplify(r)))
        if _lit(a) is not None and _lit(b) is not None:
            return _mk(z3.simplify(op(b, a) if rop else op(a, b)))
        r = op(b, a) if rop else op(a, b)
        return SReal(r) if r.is_real() else SInt(r)

    return f


_TYPED_SCALAR_HOOK = None  # installed by symx.snp: result dtype and wrap-around of arithmetic between numpy-typed scalars


def _num_cmp(op):
    def f(self, o):
        try:
            b = zn(o)
        except TypeError:
            return NotImplemented
        if _lit(self.e) is not None and _lit(b) is not None:
            return _mk(z3.simplify(op(self.e, b)))
        return SBool(op(self.e, b))

    return f


def _pyfloordiv(a, b):
    # z3 int division: a = b*q + r with 0 <= r < |b|.  Python: floor(a/b).
    q = a / b
    return z3.If(b > 0, q, z3.If(a % b == 0, q, q - 1))


def _pymod(a, b):
    return a - b * _pyfloordiv(a, b)


class SInt:
    # w: (bits, signed) when the value is a numpy scalar of a fixed-width integer dtype (an element taken out of an int8 /
    # int16 / ... array): arithmetic on it then wraps like numpy scalar arithmetic does.  None = a Python int.
    __slots__ = ("e", "w")

    def __init__(self, e, w=None):
        self.e = e
        self.w = w

    @property
    def __class__(self):
        return int

    __add__ = _num_binop(lambda a, b: a + b)
    __radd__ = _num_binop(lambda a, b: a + b, True)
    __sub__ = _num_binop(lambda a, b: a - b)
    __rsub__ = _num_binop(lambda a, b: a - b, True)
    __mul__ = _num_binop(lambda a, b: a * b)
    __rmul__ = _num_binop(lambda a, b: a * b, True)
    __floordiv__ = _num_binop(_pyfloordiv)
    __rfloordiv__ = _num_binop(_pyfloordiv, True)
    __mod__ = _num_binop(_pymod)
    __rmod__ = _num_binop(_pymod, True)
    __lt__ = _num_cmp(lambda a, b: a < b)
    __le__ = _num_cmp(lambda a, b: a <= b)
    __gt__ = _num_cmp(lambda a, b: a > b)
    __ge__ = _num_cmp(lambda a, b: a >= b)

    def __divmod__(self, o):
        return self // o, self % o

    def __rdivmod__(self, o):
        return o // self, o % self

    def __eq__(self, o):
        try:
            b = zn(o)
        except TypeError:
            return NotImplemented
        if _lit(self.e) is not None and _lit(b) is not None:
            return _lit(self.e) == _lit(b)
        return SBool(self.e == b)

    def __ne__(self, o):
        try:
            b = zn(o)
        except TypeError:
            return NotImplemented
        if _lit(self.e) is not None and _lit(b) is not None:
            return _lit(self.e) != _lit(b)
        return SBool(self.e != b)

    def __truediv__(self, o):
        return SReal(z3.ToReal(self.e)) / o

    def __rtruediv__(self, o):
        return o / SReal(z3.ToReal(self.e))

    def __neg__(self):
        if self.w is not None and _TYPED_SCALAR_HOOK is not None and type(self) is SInt:
            return _TYPED_SCALAR_HOOK(self, self, SInt(-self.e))
        return SInt(-self.e)

    def __pos__(self):
        return self

    def __abs__(self):
        return SInt(z3.If(self.e >= 0, self.e, -self.e))

    def __index__(self):
        v = cur().concretize(self.e)
        self.e = z3.IntVal(v)
        return v

    __int__ = __index__

    def __float__(self):
        return float(self.__index__())

    def __hash__(self):
        return hash(self.__index__())

    def __bool__(self):
        return cur().branch(self.e != 0)

    def __repr__(self):
        return f"SInt({self.e})"

    def __str__(self):
        return str(self.__index__())

    def __format__(self, spec):
        return format(self.__index__(), spec)


class SReal:
    __slots__ = ("e",)

    def __init__(self, e):
        self.e = e

    @property
    def __class__(self):
        return float

    __add__ = _num_binop(lambda a, b: a + b)
    __radd__ = _num_binop(lambda a, b: a + b, True)
    __sub__ = _num_binop(lambda a, b: a - b)
    __rsub__ = _num_binop(lambda a, b: a - b, True)
    __mul__ = _num_binop(lambda a, b: a * b)
    __rmul__ = _num_binop(lambda a, b: a * b, True)
    __truediv__ = _num_binop(lambda a, b: a / b)
    __rtruediv__ = _num_binop(lambda a, b: a / b, True)
    __lt__ = _num_cmp(lambda a, b: a < b)
    __le__ = _num_cmp(lambda a, b: a <= b)
    __gt__ = _num_cmp(lambda a, b: a > b)
    __ge__ = _num_cmp(lambda a, b: a >= b)
    __eq__ = _num_cmp(lambda a, b: a == b)
    __ne__ = _num_cmp(lambda a, b: a != b)

    def __neg__(self):
        return SReal(-self.e)

    def __abs__(self):
        return SReal(z3.If(self.e >= 0, self.e, -self.e))

    def __hash__(self):
        raise Inconclusive("hash of a symbolic real")

    def __bool__(self):
        return cur().branch(self.e != 0)

    def __float__(self):
        raise Inconclusive("float() of a symbolic real")

    def __repr__(self):
        return f"SReal({self.e})"


# --------------------------------------------------------------------------------------
# fresh inputs
# --------------------------------------------------------------------------------------
def fresh_bool(name: str, register: bool = True) -> SBool:
    c = cur()
    v = z3.Bool(name)
    if register:
        c.inputs[name] = v
    return SBool(v)


def fresh_int(name: str, lo=None, hi=None, register: bool = True) -> SInt:
    """fresh integer input; lo/hi inclusive bounds (None = unbounded)"""
    c = cur()
    v = z3.Int(name)
    if register:
        c.inputs[name] = v
    if lo is not None:
        c.solver.add(v >= lo)
    if hi is not None:
        c.solver.add(v <= hi)
    if lo is not None and hi is not None and not is_sym(lo) and not is_sym(hi):
        c.var_bounds[name] = (int(lo), int(hi))
    return SInt(v)


def fresh_real(name: str, lo=None, hi_excl=None, register: bool = True) -> SReal:
    c = cur()
    v = z3.Real(name)
    if register:
        c.inputs[name] = v
    if lo is not None:
        c.solver.add(v >= lo)
    if hi_excl is not None:
        c.solver.add(v < hi_excl)
    return SReal(v)


# --------------------------------------------------------------------------------------
# exploration
# --------------------------------------------------------------------------------------
class ExploreResult:
    def __init__(self):
        self.paths = 0            # completed paths (reached obligations)
        self.aborted = 0          # infeasible / pruned
        self.truncated = 0        # cut by a stated bound
        self.decisions = 0
        self.queries = 0
        self.solver_s = 0.0
        self.obligations = 0
        self.discharged = 0
        self.cex: list[dict] = []  # counterexamples (model values of named inputs)
        self.samples: list = []
        self.wall_s = 0.0
        self.notes: list = []
        self.validated = 0        # paths whose result was also computed by the unpatched code and found identical
        self.real_checked = 0     # models of accepted paths replayed on the unpatched code

    def merge(self, o: "ExploreResult"):
        for k in ("paths", "aborted", "truncated", "decisions", "queries", "obligations", "discharged", "validated", "real_checked"):
            setattr(self, k, getattr(self, k) + getattr(o, k))
        self.solver_s += o.solver_s
        self.wall_s += o.wall_s
        self.cex.extend(o.cex)
        if len(self.samples) < 6:
            self.samples.extend(o.samples[: 6 - len(self.samples)])
        self.notes.extend(o.notes)

    def as_dict(self):
        return dict(self.__dict__)

    @classmethod
    def from_dict(cls, d):
        r = cls()
        r.__dict__.update(d)
        return r


def _model_to_py(m, inputs):
    out = {}
    for k, v in inputs.items():
        mv = m.eval(v, model_completion=True)
        if z3.is_bool(mv):
            out[k] = bool(z3.is_true(mv))
        elif z3.is_int_value(mv):
            out[k] = mv.as_long()
        elif z3.is_rational_value(mv):
            out[k] = [mv.numerator_as_long(), mv.denominator_as_long()]
        elif z3.is_algebraic_value(mv):
            ap = mv.approx(20)
            out[k] = [ap.numerator_as_long(), ap.denominator_as_long()]
        else:
            out[k] = str(mv)
    return out


_DUMP_COUNT = [0]


def _maybe_dump(ctx, ob, r):
    """development aid (tools/solver_diff.py): write every k-th discharged obligation as SMT-LIB2 so that other solvers
    can be run on exactly the query z3 answered.  VERIF_SMT_DUMP=<dir>[:k]"""
    import os

    spec = os.environ.get("VERIF_SMT_DUMP")
    if not spec:
        return
    d, _, k = spec.partition(":")
    k = int(k or 50)
    _DUMP_COUNT[0] += 1
    if _DUMP_COUNT[0] % k:
        return
    s2 = z3.Solver()
    s2.add(*ctx.solver.assertions())
    s2.add(z3.Not(ob))
    os.makedirs(d, exist_ok=True)
    with open(os.path.join(d, f"q{os.getpid()}_{_DUMP_COUNT[0]}_{'unsat' if r == z3.unsat else 'sat'}.smt2"), "w") as f:
        f.write(s2.to_smt2())


def path_inputs(ctx) -> dict:
    """concrete values of all named inputs for one model of the current path condition"""
    if ctx.check() != z3.sat:
        raise PathAbort("infeasible")
    return _model_to_py(ctx.solver.model(), ctx.inputs)


def validate_path(ctx, shim_result, real_fn, every: int = 1, what: str = "result"):
    """translator validation on the path itself: recompute the result with the unpatched code on a model of this
    path and require it to be identical to what the shimmed execution produced (a disagreement is a harness error)"""
    if every > 1 and (__import__('zlib').crc32(repr(ctx.trace).encode()) % every) != 0:
        return
    inputs = path_inputs(ctx)
    real = real_fn(inputs)
    if real != shim_result:
        raise Inconclusive(f"shim/real disagreement on {what}: shim={str(shim_result)[:200]} real={str(real)[:200]} inputs={str(inputs)[:200]}")
    ctx.notes["validated"] = ctx.notes.get("validated", 0) + 1


def _has_alternative(d) -> bool:
    if d[0] == "c":
        return d[1] + 1 < d[2]
    return bool(d[2] and d[1])


def explore(run, *, max_paths: int = 200_000, max_seconds: float = 3600.0, label: str = "",
            stop_on_cex: bool = True, max_cex: int = 3, sample_every: int = 0,
            validate=None, validate_every: int = 16, validate_max: int = 40, record: list | None = None) -> ExploreResult:
    """DFS over the decision tree of `run(ctx)`.

    `run` returns a list of obligations `(name, z3 BoolRef | bool)`; it may raise PathAbort to
    prune and Truncated to signal a stated cut.  Any other exception escaping `run` is a
    harness error (Inconclusive) - harnesses must translate exceptions of the code under test
    into obligations themselves.
    """
    res = ExploreResult()
    schedule: list = []
    t0 = time.perf_counter()
    while True:
        ctx = Ctx(schedule)
        Ctx.cur = ctx
        try:
            obs = run(ctx)
        except Truncated:
            obs = None
            res.truncated += 1
        except PathAbort:
            obs = None
            res.aborted += 1
        except Inconclusive:
            raise
        except Exception as e:
            # an exception escaping the code under test on a feasible path: a violation candidate, decided by
            # replaying the path's model on the real code (a harness bug does not replay and ends as exit 2)
            import traceback as _tb

            ctx.notes["unexpected_exception"] = f"{type(e).__name__}: {str(e)[:200]}"
            ctx.notes["traceback"] = _tb.format_exc(limit=6)[-1500:]
            obs = [(f"no unexpected exception (got {type(e).__name__}: {str(e)[:80]})", False)]
        finally:
            Ctx.cur = None
        if obs is not None:
            res.paths += 1
            res.validated += int(ctx.notes.get("validated", 0))
            for name, ob in obs:
                res.obligations += 1
                if ob is True or (isinstance(ob, z3.BoolRef) and z3.is_true(z3.simplify(ob))):
                    res.discharged += 1
                    continue
                if ob is False:
                    ob = z3.BoolVal(False)
                r = ctx.check(z3.Not(ob))
                _maybe_dump(ctx, ob, r)
                if r == z3.unsat:
                    res.discharged += 1
                else:
                    m = ctx.solver.model()
                    res.cex.append(dict(label=label, obligation=name, inputs=_model_to_py(m, ctx.inputs),
                                        notes={k: (v if isinstance(v, (int, str, bool, list, dict, type(None))) else str(v))
                                               for k, v in ctx.notes.items()}))
            if record is not None and not res.cex and len(record) < 3000:
                # history recording (see runner._history_replay): one model of every accepted path, in exploration order
                try:
                    record.append(dict(inputs=path_inputs(ctx), notes={k: v for k, v in ctx.notes.items() if isinstance(v, (int, str, bool, list, dict, type(None)))}))
                except PathAbort:
                    pass
            # cross-check against the unpatched code: on a sample of the paths whose obligations were all discharged,
            # a model of the path is replayed on the real code, which must not exhibit a violation either
            if (validate is not None and not res.cex and validate_every and res.real_checked < validate_max
                    and (res.paths == 1 or __import__("zlib").crc32(repr(ctx.trace).encode()) % validate_every == 0)):
                try:
                    vin = path_inputs(ctx)
                except PathAbort:
                    vin = None
                if vin is not None:
                    vmsg = validate(vin, {k: v for k, v in ctx.notes.items() if isinstance(v, (int, str, bool, list, dict, type(None)))})
                    res.real_checked += 1
                    if vmsg is not None:
                        res.notes.append(f"real code reports a violation on a model of a path the symbolic run accepted: {vmsg} (inputs {str(vin)[:300]})")
                    else:
                        res.validated += 1
            if len(res.samples) < 3 or (sample_every and res.paths % sample_every == 0 and len(res.samples) < 8):
                pc = [str(a) for a in ctx.solver.assertions()][-6:]
                res.samples.append(dict(label=label, path=res.paths, decisions=len(ctx.trace),
                                        pc_tail=pc, obligations=[n for n, _ in obs][:6]))
        res.decisions += len(ctx.trace)
        res.queries += ctx.nq
        res.solver_s += ctx.tq
        if res.cex and (stop_on_cex or len(res.cex) >= max_cex):
            break
        # backtrack
        tr = ctx.trace
        while tr and not _has_alternative(tr[-1]):
            tr.pop()
        if not tr:
            break
        last = tr.pop()
        if last[0] == "c":
            schedule = tr + [("c", last[1] + 1, last[2]) + tuple(last[3:])]
        else:
            schedule = tr + [(last[0], False, False) + tuple(last[3:])]
        if res.paths + res.aborted + res.truncated >= max_paths:
            raise Inconclusive(f"{label}: path budget {max_paths} exceeded")
        if time.perf_counter() - t0 > max_seconds:
            raise Inconclusive(f"{label}: time budget {max_seconds}s exceeded")
    res.wall_s = time.perf_counter() - t0
    return res
