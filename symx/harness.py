"""Shared harness plumbing: rebinding repository globals, symbolic maze construction."""

from __future__ import annotations

import contextlib
import importlib
import warnings

import numpy as np
import z3

from . import snp as _snp
from .core import SBool, SInt, cur
from .oracles import Lattice

warnings.filterwarnings("ignore")

SNP = _snp.make_module()

_NP_MODULES = [
    "maze_dataset.maze.lattice_maze",
    "maze_dataset.generation.generators",
    "maze_dataset.token_utils",
    "maze_dataset.utils",
    "maze_dataset.dataset.maze_dataset",
    "maze_dataset.dataset.collected_dataset",
    "maze_dataset.dataset.rasterized",
    "maze_dataset.plotting.plot_maze",
    "maze_dataset.tokenization.maze_tokenizer",
]


@contextlib.contextmanager
def patched(np_modules=None, stub_ascii=True, extra=None, np_module=None):
    """rebind `np` (and extra globals) in repository modules for the duration of a symbolic run.

    extra: {"module.path": {"name": obj}}  or  {("module.path", "Class"): {"attr": obj}}
    """
    saved = []
    _ACTIVE.append(saved)
    mods = _NP_MODULES if np_modules is None else np_modules
    try:
        for mn in mods:
            m = importlib.import_module(mn)
            if hasattr(m, "np"):
                saved.append((m, "np", m.np))
                m.np = np_module or SNP
        if stub_ascii:
            lm = importlib.import_module("maze_dataset.maze.lattice_maze")
            saved.append((lm.LatticeMaze, "as_ascii", lm.LatticeMaze.as_ascii))
            lm.LatticeMaze.as_ascii = lambda self, *a, **k: "<as_ascii stubbed in error message>"
        for target, kv in (extra or {}).items():
            if isinstance(target, tuple):
                obj = getattr(importlib.import_module(target[0]), target[1])
            elif isinstance(target, str):
                obj = importlib.import_module(target)
            else:
                obj = target
            for k, v in kv.items():
                saved.append((obj, k, getattr(obj, k, _MISSING)))
                setattr(obj, k, v)
        yield
    finally:
        _ACTIVE.remove(saved)
        for obj, k, v in reversed(saved):
            if v is _MISSING:
                try:
                    delattr(obj, k)
                except AttributeError:
                    pass
            else:
                setattr(obj, k, v)


_MISSING = object()
_ACTIVE: list = []


@contextlib.contextmanager
def unpatched():
    """temporarily restore every binding that an enclosing `patched()` replaced (real-code replays inside a symbolic job)"""
    cur_vals = []
    try:
        for saved in reversed(_ACTIVE):
            for obj, k, orig in reversed(saved):
                cur_vals.append((obj, k, getattr(obj, k, _MISSING)))
                if orig is _MISSING:
                    try:
                        delattr(obj, k)
                    except AttributeError:
                        pass
                else:
                    setattr(obj, k, orig)
        yield
    finally:
        for obj, k, v in reversed(cur_vals):
            if v is _MISSING:
                try:
                    delattr(obj, k)
                except AttributeError:
                    pass
            else:
                setattr(obj, k, v)


def stubs_description(np_modules=None, stub_ascii=True, extra=None):
    out = [f"np -> symbolic shim in {m}" for m in (_NP_MODULES if np_modules is None else np_modules)]
    if stub_ascii:
        out.append("LatticeMaze.as_ascii -> constant string (only reached when building exception messages)")
    for target, kv in (extra or {}).items():
        out.extend(f"{target}.{k} -> harness stub" for k in kv)
    return out


def sym_connection_list(r: int, c: int, prefix: str = "c", boundary_free: bool = False, register=True):
    """(SArr bool[2,r,c] with one fresh bit per entry, Lattice oracle over the same bits).

    Unless boundary_free, the representation invariant (bottom row of [0] and right column of
    [1] are False) is assumed, as for every maze that is an *input*.
    """
    ctx = cur()
    lat = Lattice(r, c, prefix)
    arr = SNP.zeros((2, r, c), dtype=np.bool_)
    for k in lat.all_idx:
        b = lat.bit[k]
        if register:
            ctx.inputs[str(b)] = b
        if not boundary_free and not lat.is_edge(k):
            ctx.solver.add(z3.Not(b))
            arr.o[k] = False
        else:
            arr.o[k] = SBool(b)
    return arr, lat


def conn_from_cex(inputs: dict, r: int, c: int, prefix: str = "c") -> np.ndarray:
    """rebuild the concrete connection list of a counterexample"""
    a = np.zeros((2, r, c), dtype=np.bool_)
    for d in range(2):
        for i in range(r):
            for j in range(c):
                a[d, i, j] = bool(inputs.get(f"{prefix}_{d}_{i}_{j}", False))
    return a


def pin(inputs: dict):
    """assume every named input equals the given concrete value (translator validation runs)"""
    ctx = cur()
    for k, v in inputs.items():
        var = ctx.inputs.get(k)
        if var is None:
            continue
        if isinstance(v, bool):
            ctx.solver.add(var == z3.BoolVal(v))
        else:
            ctx.solver.add(var == v)


def py_path(p):
    """path returned by the code under test -> list of int tuples (concretising if needed)"""
    return [tuple(int(x) for x in row) for row in p]
