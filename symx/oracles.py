"""Independent reference models written directly in z3 (never by calling the code under test)."""

from __future__ import annotations

import z3


class Lattice:
    """r x c lattice whose edge bits are z3 booleans.

    bit[(0,i,j)]: cell (i,j) -- (i+1,j)   (down);  bit[(1,i,j)]: (i,j) -- (i,j+1)   (right).
    Boundary entries (0,r-1,j) and (1,i,c-1) exist in the array but join no two cells.
    """

    def __init__(self, r: int, c: int, prefix: str = "c", bits: dict | None = None):
        self.r, self.c = r, c
        self.cells = [(i, j) for i in range(r) for j in range(c)]
        self.all_idx = [(d, i, j) for d in range(2) for i in range(r) for j in range(c)]
        self.edge_idx = [k for k in self.all_idx if self.is_edge(k)]
        self.boundary_idx = [k for k in self.all_idx if not self.is_edge(k)]
        if bits is None:
            bits = {k: z3.Bool(f"{prefix}_{k[0]}_{k[1]}_{k[2]}") for k in self.all_idx}
        self.bit = bits

    def is_edge(self, k) -> bool:
        d, i, j = k
        return (i + 1 < self.r) if d == 0 else (j + 1 < self.c)

    def ends(self, k):
        d, i, j = k
        return ((i, j), (i + 1, j)) if d == 0 else ((i, j), (i, j + 1))

    def edge_between(self, u, v):
        """index of the lattice edge joining cells u and v, or None"""
        (a, b), (c, d) = u, v
        if abs(a - c) + abs(b - d) != 1:
            return None
        lo = (min(a, c), min(b, d))
        k = (0 if a != c else 1, lo[0], lo[1])
        return k if k in self.bit and self.is_edge(k) else None

    def adj(self, u):
        """[(neighbour, bit expr)] for the lattice neighbours of u"""
        i, j = u
        out = []
        if i + 1 < self.r:
            out.append(((i + 1, j), self.bit[(0, i, j)]))
        if j + 1 < self.c:
            out.append(((i, j + 1), self.bit[(1, i, j)]))
        if i > 0:
            out.append(((i - 1, j), self.bit[(0, i - 1, j)]))
        if j > 0:
            out.append(((i, j - 1), self.bit[(1, i, j - 1)]))
        return out

    def reach_layers(self, s, k):
        """dict cell -> expr: reachable from s in <= k steps"""
        cur = {v: z3.BoolVal(v == s) for v in self.cells}
        for _ in range(k):
            cur = {v: z3.Or(cur[v], *[z3.And(cur[u], b) for u, b in self.adj(v)]) for v in self.cells}
        return cur

    def reach_within(self, s, e, k):
        return self.reach_layers(s, k)[e]

    def reach(self, s):
        """dict cell -> reachable from s (any length)"""
        return self.reach_layers(s, len(self.cells) - 1)

    def n_edges(self):
        return z3.Sum([z3.If(self.bit[k], 1, 0) for k in self.edge_idx]) if self.edge_idx else z3.IntVal(0)

    def boundary_clear(self):
        return z3.And(*[z3.Not(self.bit[k]) for k in self.boundary_idx]) if self.boundary_idx else z3.BoolVal(True)

    def connected(self):
        r = self.reach(self.cells[0])
        return z3.And(*[r[v] for v in self.cells])

    def spanning_tree(self):
        return z3.And(self.connected(), self.n_edges() == len(self.cells) - 1)

    def degree(self, u):
        return z3.Sum([z3.If(b, 1, 0) for _, b in self.adj(u)]) if self.adj(u) else z3.IntVal(0)
