#!/usr/bin/env python3
"""Run checks against the seeded changes under /verif/seeded (development tool).
usage: seeded_run.py [--tier quick] [name ...]     (name like C02-a; default: all)
Applies each patch to a scratch copy of /repo's package (never to /repo), runs the check of the
property it breaks and records exit code + first VIOLATION message in seeded/RESULTS.json."""
import argparse, json, os, shutil, subprocess, sys, tempfile
from pathlib import Path
VERIF = Path(__file__).resolve().parent.parent
ap = argparse.ArgumentParser(); ap.add_argument("names", nargs="*"); ap.add_argument("--tier", default="quick"); ap.add_argument("--prop")
a = ap.parse_args()
resf = VERIF / "seeded" / "RESULTS.json"
res = json.loads(resf.read_text()) if resf.exists() else {}
names = a.names or sorted(p.name for p in (VERIF / "seeded").iterdir() if p.is_dir())
for name in names:
    d = VERIF / "seeded" / name
    prop = a.prop or json.loads((d / "meta.json").read_text())["property"]
    if not (VERIF / "props" / f"{prop.lower()}.py").exists():
        print(name, "no check yet for", prop); continue
    sc = Path(tempfile.mkdtemp(prefix="verif-seed-", dir="/tmp"))
    try:
        shutil.copytree("/repo/maze_dataset", sc / "maze_dataset", ignore=shutil.ignore_patterns("__pycache__"))
        subprocess.check_call(["patch", "-s", "-p1", "-d", str(sc), "-i", str(d / "patch.diff")])
        ev = VERIF / "evidence" / f"{prop}.json"; bak = ev.read_text() if ev.exists() else None
        p = subprocess.run([str(VERIF / "check.py"), prop, "--tier", a.tier], env=dict(os.environ, VERIF_REPO=str(sc), PYTHONDONTWRITEBYTECODE="1"),
                           capture_output=True, text=True, cwd=VERIF)
        if bak is not None: ev.write_text(bak)
        out = p.stdout + p.stderr
        viol = [l for l in out.splitlines() if l.startswith("VIOLATION")]
        msg = ""
        if viol:
            i = out.splitlines().index(viol[0]); msg = out.splitlines()[i + 1].strip()[:300] if i + 1 < len(out.splitlines()) else ""
        inc = [l for l in out.splitlines() if l.startswith("INCONCLUSIVE")][:2]
        res[f"{name}|{prop}|{a.tier}"] = dict(exit=p.returncode, message=msg, inconclusive=[x[:300] for x in inc])
        print(name, prop, a.tier, "exit", p.returncode, msg[:160], inc[:1], flush=True)
    finally:
        shutil.rmtree(sc, ignore_errors=True)
resf.write_text(json.dumps(res, indent=1, sort_keys=True))
