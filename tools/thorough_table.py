#!/usr/bin/env python3
"""development tool: builds refs/thorough_times.txt from the `exit=` lines of thorough sweep logs given on the command line (later logs win)"""
import re, sys
rows = {}
for path in sys.argv[1:]:
    for l in open(path, errors="replace"):
        m = re.match(r"(C\d\d) exit=(\d+) wall=(\d+)s jobs=(\d+) paths=(\d+) truncated=(\d+) obligations=(\d+) discharged=(\d+) queries=(\d+) solver_s=([\d.]+) validated=(\d+)", l)
        if m:
            rows[m.group(1)] = m.groups()
print("| id | exit | wall s | instances | paths | truncated (outside the claim) | obligations | discharged | z3 queries | cross-checked on real code |")
print("|----|----|----|----|----|----|----|----|----|----|")
for k in sorted(rows):
    g = rows[k]
    print(f"| {g[0]} | {g[1]} | {g[2]} | {g[3]} | {g[4]} | {g[5]} | {g[6]} | {g[7]} | {g[8]} | {g[10]} |")
