#!/usr/bin/env bash
# development tool: usage try_seed.sh <round-letter> <ID> [<ID> ...]  - confirm each freshly written seeded change in the background and run the quick check against it
x=$1; shift
for id in "$@"; do (bash /verif/tools/confirm_seeded.sh "$id" "$x" > "/tmp/seed-out/confirm-$id-$x.log" 2>&1 &); done
for id in "$@"; do
  echo "=== $id-$x"
  python3 /verif/tools/mutants.py patch "/tmp/seed-out/$id/$x/patch.diff" "$id" 2>&1 | grep -v "^WARNING" | cut -c1-300 | grep -E "exit|VIOLATION|^  [a-z]|INCONCLUSIVE" | head -4
done
