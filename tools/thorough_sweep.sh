#!/usr/bin/env bash
# development tool: run the thorough tier of the given properties one after the other, print one line each
for id in "$@"; do
  s=$(date +%s)
  ./check.py "$id" --tier thorough > "sweep_$id.log" 2>&1
  rc=$?
  echo "$id exit=$rc wall=$(( $(date +%s) - s ))s $(grep '^\[C' "sweep_$id.log" | sed 's/.*jobs=/jobs=/')"
  grep -E "^VIOLATION|^INCONCLUSIVE" "sweep_$id.log" | head -3
done
