#!/usr/bin/env python3
"""Development tool (not a registered command): self-test of detection power.

Copies /repo's package to a scratch directory outside /repo and /verif, applies one textual
mutation (or a patch file), runs a check against the copy (VERIF_REPO), reports the exit code
and removes the copy.

  tools/mutants.py list
  tools/mutants.py run <mutant-id> [--tier quick]
  tools/mutants.py patch <patch.diff> <PROP> [--tier quick]
  tools/mutants.py all [--prop C02]
"""
import argparse, json, os, shutil, subprocess, sys, tempfile
from pathlib import Path

VERIF = Path(__file__).resolve().parent.parent
CATALOGUE = json.loads((VERIF / "tools" / "mutants.json").read_text())


def scratch():
    d = Path(tempfile.mkdtemp(prefix="verif-mut-", dir="/tmp"))
    shutil.copytree("/repo/maze_dataset", d / "maze_dataset", ignore=shutil.ignore_patterns("__pycache__"))
    return d


def run_check(d, prop, tier):
    env = dict(os.environ, VERIF_REPO=str(d), PYTHONDONTWRITEBYTECODE="1")
    p = subprocess.run([str(VERIF / "check.py"), prop, "--tier", tier], env=env, capture_output=True, text=True, cwd=VERIF)
    return p.returncode, p.stdout + p.stderr


def run_mutant(mid, tier):
    m = CATALOGUE[mid]
    d = scratch()
    try:
        f = d / m["file"]
        s = f.read_text()
        if s.count(m["old"]) != 1:
            return mid, "BAD-MUTANT", f"pattern occurs {s.count(m['old'])} times"
        f.write_text(s.replace(m["old"], m["new"]))
        # keep the evidence of the unchanged tree: run with a private evidence dir? evidence is rewritten; restore after
        outs = []
        for prop in m["props"]:
            ev = VERIF / "evidence" / f"{prop}.json"
            bak = ev.read_text() if ev.exists() else None
            rc, out = run_check(d, prop, tier)
            if bak is not None:
                ev.write_text(bak)
            outs.append((prop, rc, out))
        return mid, outs, None
    finally:
        shutil.rmtree(d, ignore_errors=True)


def main():
    ap = argparse.ArgumentParser()
    ap.add_argument("cmd")
    ap.add_argument("args", nargs="*")
    ap.add_argument("--tier", default="quick")
    ap.add_argument("--prop")
    a = ap.parse_args()
    if a.cmd == "list":
        for k, m in CATALOGUE.items():
            print(k, m["props"], m["file"], "-", m.get("why", ""))
    elif a.cmd == "run":
        mid, outs, err = run_mutant(a.args[0], a.tier)
        if err:
            print(mid, outs, err); sys.exit(3)
        for prop, rc, out in outs:
            print(f"== {mid} vs {prop}: exit {rc}"); print(out[-1500:])
    elif a.cmd == "patch":
        d = scratch()
        try:
            subprocess.check_call(["patch", "-p1", "-d", str(d), "-i", str(Path(a.args[0]).resolve())])
            ev = VERIF / "evidence" / f"{a.args[1]}.json"
            bak = ev.read_text() if ev.exists() else None
            rc, out = run_check(d, a.args[1], a.tier)
            if bak is not None:
                ev.write_text(bak)
            print(f"== patch vs {a.args[1]}: exit {rc}"); print(out[-2500:])
        finally:
            shutil.rmtree(d, ignore_errors=True)
    elif a.cmd == "all":
        res = {}
        for mid, m in CATALOGUE.items():
            if a.prop and a.prop not in m["props"]:
                continue
            mid, outs, err = run_mutant(mid, a.tier)
            if err:
                res[mid] = err
            else:
                res[mid] = {prop: rc for prop, rc, _ in outs}
            print(mid, res[mid], flush=True)
        missed = [k for k, v in res.items() if not (isinstance(v, dict) and all(rc == 1 for rc in v.values()))]
        print("MISSED:", missed)


if __name__ == "__main__":
    main()
