#!/usr/bin/env python3
"""development tool: poor man's pyflakes - names loaded in a module that are never bound anywhere in it (and are not builtins)"""
import ast, builtins, sys
for path in sys.argv[1:]:
    tree = ast.parse(open(path).read())
    bound = set(dir(builtins)) | {"__file__", "__name__"}
    for n in ast.walk(tree):
        if isinstance(n, (ast.FunctionDef, ast.ClassDef, ast.AsyncFunctionDef)):
            bound.add(n.name)
            if not isinstance(n, ast.ClassDef):
                a = n.args
                for x in a.args + a.kwonlyargs + a.posonlyargs + ([a.vararg] if a.vararg else []) + ([a.kwarg] if a.kwarg else []):
                    bound.add(x.arg)
        elif isinstance(n, ast.Lambda):
            a = n.args
            for x in a.args + a.kwonlyargs + a.posonlyargs + ([a.vararg] if a.vararg else []) + ([a.kwarg] if a.kwarg else []):
                bound.add(x.arg)
        elif isinstance(n, (ast.Import, ast.ImportFrom)):
            for al in n.names:
                bound.add((al.asname or al.name).split(".")[0])
        elif isinstance(n, ast.Name) and isinstance(n.ctx, (ast.Store, ast.Del)):
            bound.add(n.id)
        elif isinstance(n, ast.ExceptHandler) and n.name:
            bound.add(n.name)
        elif isinstance(n, (ast.Global, ast.Nonlocal)):
            bound.update(n.names)
    for n in ast.walk(tree):
        if isinstance(n, ast.Name) and isinstance(n.ctx, ast.Load) and n.id not in bound:
            print(f"{path}:{n.lineno}: undefined name {n.id}")
