#!/usr/bin/env python3
"""fills the generated blocks of DESIGN.md (cost table, detection table, solver diff, mutants) - development tool"""
import json, re, subprocess, sys
from pathlib import Path
V = Path(__file__).resolve().parent.parent
s = (V / "DESIGN.md").read_text()


def block(name, text):
    global s
    s = re.sub(rf"<!-- {name} -->.*?<!-- /{name} -->", lambda m: f"<!-- {name} -->\n{text.strip()}\n<!-- /{name} -->", s, flags=re.S)


import glob
rows = ["| id | harness instances | paths | obligations (all discharged) | z3 queries | solver s | cross-checked on real code | wall s |", "|----|----|----|----|----|----|----|----|"]
for f in sorted(glob.glob(str(V / "evidence" / "C*.json"))):
    e = json.load(open(f)); c = e["coverage"]
    rows.append(f"| {e['property_id']} | {c.get('jobs')} | {c.get('paths')} | {c.get('obligations')} | {c.get('queries')} | {c.get('solver_s')} | {c.get('traces_validated_against_impl')} | {e['wall_s']} |")
block("COST_TABLE", "\n".join(rows))
block("DETECT_TABLE", subprocess.run([sys.executable, str(V / "tools" / "detect_table.py")], capture_output=True, text=True).stdout)
for name, fn in (("SOLVER_DIFF", "refs/solver_diff.txt"), ("MUTANTS", "refs/mutants_result.txt"), ("THOROUGH", "refs/thorough_times.txt")):
    f = V / fn
    if f.exists():
        block(name, f.read_text())
(V / "DESIGN.md").write_text(s)
print("filled")
