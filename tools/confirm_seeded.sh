#!/usr/bin/env bash
# usage: confirm_seeded.sh <ID> <x>   (reads /tmp/seed-out/<ID>/<x>/, writes /verif/seeded/<ID>-<x>/ when confirmed)
# Independent confirmation in a scratch worktree: patch applies, demo fails with it and passes without,
# the whole existing suite still passes with it.
set -u
ID=$1; X=$2; SRC=/tmp/seed-out/$ID/$X; WT=/tmp/cf-$ID-$X; OUT=/verif/seeded/$ID-$X
rm -rf "$WT"; git -C /repo worktree prune; git -C /repo worktree add -q --detach "$WT" HEAD || exit 3
res() { echo "$ID-$X: $*"; }
cd "$WT"
PYTHONPATH=$WT /venv/bin/python "$SRC/demo.py" >/dev/null 2>&1; clean_rc=$?
if ! git apply "$SRC/patch.diff"; then res "PATCH-DOES-NOT-APPLY"; git -C /repo worktree remove --force "$WT"; exit 1; fi
PYTHONPATH=$WT /venv/bin/python "$SRC/demo.py" >"$WT/.demo_out" 2>&1; mut_rc=$?
python3 /verif/tools/baseline_compare.py "$WT" /dev/null /tmp/seed-out/baseline_passed.txt > "$WT/.suite_out" 2>&1; suite_rc=$?
suite_line=$(head -1 "$WT/.suite_out")
if [ $clean_rc -eq 0 ] && [ $mut_rc -ne 0 ] && [ $suite_rc -eq 0 ]; then
  mkdir -p "$OUT"; cp "$SRC/patch.diff" "$SRC/demo.py" "$OUT/"
  python3 - "$SRC/meta.json" "$OUT/meta.json" "$ID" "$suite_line" "$mut_rc" <<'PY'
import json,sys
src,dst,pid,suite,mrc=sys.argv[1:6]
try: m=json.load(open(src))
except Exception: m={}
out=dict(property=pid, summary=m.get("summary",""), needs_to_manifest=m.get("needs_to_manifest",""), files=m.get("files",[]),
  origin="written by an independent sub-agent given only the property text and a private worktree",
  confirmed=dict(what_i_ran=["git apply patch.diff in a fresh scratch worktree of /repo HEAD",
     "PYTHONPATH=<wt> /venv/bin/python demo.py  (clean tree: exit 0; with patch: exit %s)"%mrc,
     "tools/baseline_compare.py <wt> against the pass list of the unchanged tree: "+suite]))
json.dump(out,open(dst,"w"),indent=1)
PY
  res "CONFIRMED ($suite_line)"
else
  res "REJECTED clean_rc=$clean_rc mut_rc=$mut_rc suite_rc=$suite_rc $suite_line"
fi
cd /; git -C /repo worktree remove --force "$WT"
