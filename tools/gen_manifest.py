#!/usr/bin/env python3
"""Regenerates MANIFEST.json from the property modules present under props/ (development tool)."""
import json
import sys
from pathlib import Path

VERIF = Path(__file__).resolve().parent.parent
sys.path.insert(0, str(VERIF))

ALL = [f"C{i:02d}" for i in range(1, 21)]
NA = {
    "C19": "uniformity of Wilson's output distribution is a statement about probabilities of outputs, not a satisfiability question over "
           "one symbolic execution; an SMT query cannot count or weigh executions and the walks are unbounded (DESIGN.md section 5)",
}
LEVEL_TEXT = {}
TECH = {}
NOTE = {}


def main():
    checks = []
    na = []
    also = {}
    for pid in ALL:
        f = VERIF / "props" / f"{pid.lower()}.py"
        if pid in NA:
            na.append(dict(property_id=pid, reason=NA[pid]))
            continue
        if not f.exists():
            na.append(dict(property_id=pid, reason="check not built yet (work in progress; see DESIGN.md for the planned harness)"))
            continue
        src = f.read_text()
        ns = {}
        # META/MANIFEST entries are plain literals at the bottom of each module: import is too heavy here
        import importlib

        mod = importlib.import_module(f"props.{pid.lower()}")
        man = getattr(mod, "MANIFEST", {})
        meta = getattr(mod, "META", {})
        for e in man.get("also", []):
            also.setdefault(e, []).append(pid)
        entry = dict(
            property_id=pid,
            quick_cmd=f"./check.py {pid} --tier quick",
            thorough_cmd=f"./check.py {pid} --tier thorough",
            evidence_file=f"/verif/evidence/{pid}.json",
            replay_cmd_template=f"./check.py {pid} --replay {{path}}",
            engine=man.get("engine", "symx"),
            level_claimed=dict(
                category="model_checking",
                text=man.get("level_text", "bounded symbolic execution of the real functions; every obligation on every explored path is "
                                           "discharged by z3 for all inputs within the stated bound, counterexamples are replayed on the real code"),
                design_ref=man.get("design_ref", f"DESIGN.md section 3 ({pid})"),
            ),
            level_note=man.get("level_note", "trusted: z3 5.1.0, CPython, numpy indexing under the shim, shim element semantics (validated per run "
                                             "against real numpy on pinned inputs), hand-written z3 oracles; bounds and stubs are listed in the evidence file"),
            technique=man.get("technique", "solver-based bounded checking: path-forking symbolic execution of the real Python code over z3 (obligations per path discharged by the solver, "
                                           "counterexamples replayed on the unpatched code); instances whose inputs the code forces to concrete values - call-history and aliasing "
                                           "sequences, real-file round trips, hashing - are concrete evaluations and are flagged `degenerate` in the evidence"),
        )
        checks.append(entry)
    manifest = dict(
        version=1,
        setup_cmd="bash ./setup.sh",
        hooks=dict(
            guard="UNDERSTANDING_SEARCH_MAZE_DATASET_VERIF",
            enable="checks set UNDERSTANDING_SEARCH_MAZE_DATASET_VERIF=1 in their own process; no source hook exists in /repo (the harness rebinds "
                   "module globals such as `np` at run time), so the variable guards nothing in the repository",
            baseline_off_cmd="cd /repo && /venv/bin/python -m pytest -ra -q -p no:cacheprovider --timeout=900 --continue-on-collection-errors",
            source_commits=[],
            add_only=True,
        ),
        engines=[
            dict(name="symx", path="/verif/symx", serves_properties=[c["property_id"] for c in checks if c["engine"] == "symx"],
                 kind_free_text="own path-forking symbolic executor (z3 5.1.0) that runs the repository's real functions with symbolic booleans/"
                                "integers/reals and a symbolic numpy shim; obligations per path are discharged by z3; counterexamples replay on the real code"),
            dict(name="crosshair", path="/verif/ch", serves_properties=sorted(also.get("crosshair", [])),
                 kind_free_text="CrossHair 0.0.110 symbolic execution (z3) of pure str/int functions, one condition per process under a fixed timeout"),
        ],
        checks=checks,
        notes="Exit codes: 0 held within bounds, 1 violation (replayed on the real code), 2 inconclusive / harness error. "
              "Known findings: /verif/known_findings.json. See DESIGN.md.",
        not_applicable=na,
    )
    manifest["engines"] = [e for e in manifest["engines"] if e["serves_properties"]]
    (VERIF / "MANIFEST.json").write_text(json.dumps(manifest, indent=1) + "\n")
    print("claimed:", [c["property_id"] for c in checks])
    print("not claimed:", [n["property_id"] for n in na])


if __name__ == "__main__":
    main()
