#!/usr/bin/env python3
"""Writes the prompts handed to the independent sub-agents that author seeded changes (development tool).
usage: seed_prompts.py <round-letter> [flavour-key]     -> /tmp/seed-out/prompts/<ID>-<x>.txt, worktree paths /tmp/seed-wt/<ID>-<x>
The sub-agent gets ONLY this text (property + task), a private worktree and an output directory - nothing from /verif."""
import json, sys
from pathlib import Path

T = """You are helping to evaluate a verification framework for the Python library `maze-dataset` (understanding-search/maze-dataset). Your job: write ONE realistic, subtle code change (a "seeded defect") to the library that BREAKS the semantic property given below, while the library still imports and the ENTIRE existing test suite still passes.

Your private scratch git worktree of the repository is: {wt}
Work ONLY inside that directory (and write your outputs to {out}). Do NOT read or touch /repo, /verif or any other directory outside your worktree and the output directory. Use `/venv/bin/python` with `PYTHONPATH={wt}` so that your worktree's `maze_dataset` package is the one imported (check with `python -c "import maze_dataset; print(maze_dataset.__file__)"`).

THE PROPERTY (id {pid}):
{prop}

REQUIREMENTS for the change:
1. It modifies only files under `maze_dataset/` in your worktree (library code, not tests, not docs). Keep it small and plausible - the kind of thing a maintainer might write during a refactoring, optimisation or "clean-up" and a reviewer might wave through. No comments that give it away.
2. It must make the property FALSE for some inputs/sequences, and it must need something SPECIFIC to manifest - {flavour}. NOT something that ordinary use or any existing test would expose at once.
3. The whole existing test suite must still pass with the change. Run at least the relevant test directories, e.g. `cd {wt} && PYTHONPATH={wt} /venv/bin/python -m pytest -q -p no:cacheprovider -x tests/unit` (the full suite takes a while; at minimum run every test file that touches the code you changed, and preferably `tests/unit` completely). Tests that already fail without your change do not count.
4. Write a demonstration program `demo.py`: a standalone script (no pytest needed) that exits 0 on the UNCHANGED library and exits non-zero (assertion failure / exception) WITH your change. It must exercise only public behaviour that the property talks about, and must be deterministic. Verify both directions yourself (use `git diff > patch; git checkout .; run; git apply patch; run` - do NOT use `git stash`: the stash is shared between worktrees of other people working on the same repository).

OUTPUTS (all three required), written to {out}/ :
- `patch.diff`  : output of `git -C {wt} diff` (must apply with `git apply` to a clean checkout of the same commit)
- `demo.py`     : the demonstration program (imports `maze_dataset` from PYTHONPATH; do not hard-code your worktree path in it)
- `meta.json`   : {{"summary": "<what the change does, 1-3 sentences>", "needs_to_manifest": "<precisely which inputs / sequence / options are needed for the property to fail>", "files": ["<changed files>"]}}

Leave your worktree with the change applied or not, as you like; do not commit. When you are done, reply with a 5-line summary: what you changed, what it needs to manifest, which tests you ran and their result, and how demo.py behaves with and without the change.
"""
FL = {
    "history": "for example TWO cooperating code sites that each look fine alone, or a multi-step sequence of operations / a particular call history on the same objects, or state left behind by an earlier call",
    "input": "for example an unusual but legal input, option combination, size or shape, or boundary value, preferably in one of the LESS central functions/mechanisms the property mentions (avoid the first, most obvious function; pick a secondary clause of the property statement)",
    "error": "for example a validation / error-handling / edge-case path: an input that must be rejected is now accepted (or the reverse), an exception changes its type or is swallowed, an empty / single-element / degenerate case (empty list, one cell, one maze, zero count, None vs missing) is handled differently, or a default value changes meaning",
    "alias": "for example aliasing or mutation: the function now returns (or stores) a reference to its input or to shared internal state instead of a copy, mutates an argument or a module-level constant in place, or two results share a buffer - so that the defect only shows when the caller later modifies one of the objects or calls the function again",
    "refactor": "for example a performance-motivated rewrite that LOOKS semantics-preserving: a loop turned into vectorised numpy (broadcasting, argsort / unique / cumsum / searchsorted / boolean masks), an early exit or short-circuit added, two loops fused or their order swapped, a set replaced by a list or dict (or the reverse), a comparison simplified - and which is subtly wrong only for ties, duplicates, empty or single-element inputs, non-square shapes, a particular ordering, or unsorted input",
    "free": "of your own choosing - be inventive: read the code the property is anchored in closely and look for the least-tested corner of it (an option nobody sets, a branch only one generator or one tokenizer element takes, an interaction between two features, a platform / dtype / ordering assumption); avoid the first idea that comes to mind",
    "helper": "for example a change to a SHARED helper, constant, base-class method or default value (in maze_dataset/utils.py, constants.py, token_utils.py, the dataset / tokenizer base classes, a __post_init__ or a property) that several features rely on, so that the code the property names looks untouched and only one particular caller, subclass, option or value range is affected",
    "arith": "for example an arithmetic / indexing / dtype / rounding / off-by-one slip that only shows at a particular size, coordinate, count or threshold value (not at the small round numbers the tests use)",
}
x = sys.argv[1]
fl = FL[sys.argv[2] if len(sys.argv) > 2 else {"e": "history", "f": "input", "g": "arith", "h": "error", "i": "alias", "j": "refactor", "k": "free", "m": "helper"}.get(x, "arith")]
Path("/tmp/seed-out/prompts").mkdir(parents=True, exist_ok=True)
for l in open(Path(__file__).resolve().parent.parent / "properties.jsonl"):
    d = json.loads(l)
    if d["id"] == "C19":
        continue
    wt, out = f"/tmp/seed-wt/{d['id']}-{x}", f"/tmp/seed-out/{d['id']}/{x}"
    prop = json.dumps({k: d[k] for k in ("title", "statement", "quantifier", "why_tests_cant", "anchors")}, indent=1)
    Path(f"/tmp/seed-out/prompts/{d['id']}-{x}.txt").write_text(T.format(wt=wt, out=out, pid=d["id"], prop=prop, flavour=fl))
print("written")
