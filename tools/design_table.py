#!/usr/bin/env python3
"""prints the 'as built' markdown table for DESIGN.md from the committed evidence files (development tool)"""
import json, glob
rows = []
for f in sorted(glob.glob("/verif/evidence/C*.json")):
    e = json.load(open(f))
    c = e["coverage"]
    deg = c.get("degenerate") or {}
    rows.append(f"| {e['property_id']} | {c.get('jobs')} | {c.get('paths')} | {c.get('obligations')} | {c.get('queries')} | {c.get('solver_s')} | {c.get('traces_validated_against_impl')} | {e['wall_s']} |")
print("| id | harness instances | paths | obligations (all discharged) | z3 queries | solver s | shim-vs-real validations | wall s (16 cores) |")
print("|----|----|----|----|----|----|----|----|")
print("\n".join(rows))
