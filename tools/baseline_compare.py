#!/usr/bin/env python3
"""usage: baseline_compare.py [REPO [SAVE_PASSED_TO [COMPARE_WITH_SAVED]]]
Run the repository's pinned test command (in REPO, default /repo) and compare with BASELINE.json stable_pass."""
import json, subprocess, sys, tempfile, os
import xml.etree.ElementTree as ET
repo = sys.argv[1] if len(sys.argv) > 1 else "/repo"
base = json.load(open("/root/.vp/BASELINE.json"))
out = tempfile.mktemp(suffix=".xml")
env = dict(os.environ, PYTHONPATH=repo)
subprocess.run(["/venv/bin/python", "-m", "pytest", "-q", "-p", "no:cacheprovider", "--timeout=900",
                "--continue-on-collection-errors", f"--junitxml={out}"], cwd=repo, env=env,
               stdout=subprocess.DEVNULL, stderr=subprocess.DEVNULL)
passed = set()
for tc in ET.parse(out).getroot().iter("testcase"):
    if not any(c.tag in ("failure", "error", "skipped") for c in tc):
        passed.add(f"{tc.get('classname')}::{tc.get('name')}")
os.remove(out)
if len(sys.argv) > 2:
    open(sys.argv[2], "w").write("\n".join(sorted(passed)) + "\n")
stable = set(base["stable_pass"])
if len(sys.argv) > 3:  # compare against a saved pass list instead of BASELINE.json
    stable = set(open(sys.argv[3]).read().split("\n")) - {""}
missing = sorted(stable - passed)
print(f"stable_pass={len(stable)} passed_now={len(passed)} stable_now_failing={len(missing)} newly_passing={len(passed - stable)}")
for m in missing[:30]:
    print("  FAIL:", m)
sys.exit(1 if missing else 0)
