#!/usr/bin/env python3
"""prints the detection table for DESIGN.md from seeded/*/meta.json and seeded/RESULTS.json (development tool)"""
import json, glob, os
res = json.load(open("/verif/seeded/RESULTS.json"))
print("| change | written against | needs, in short | check run | verdict | first message |")
print("|----|----|----|----|----|----|")
for d in sorted(glob.glob("/verif/seeded/C*-*")):
    name = os.path.basename(d)
    m = json.load(open(d + "/meta.json"))
    rows = [(k, v) for k, v in res.items() if k.startswith(name + "|")]
    need = " ".join(m.get("needs_to_manifest", "").split())[:110]
    if not rows:
        print(f"| {name} | {m['property']} | {need} | - | not run | |")
    for k, v in rows:
        verdict = {0: "**missed** (exit 0)", 1: "caught (exit 1)", 2: "inconclusive (exit 2)"}.get(v["exit"], str(v["exit"]))
        msg = v["message"].split("|")[0].strip()
        print(f"| {name} | {m['property']} | {need} | {k.split('|')[1]} {k.split('|')[2]} | {verdict} | `{msg}` |")
