#!/usr/bin/env python3
"""Development tool: cross-check z3 5.1.0's verdicts on a sample of the real obligations with z3 4.8.12 (/usr/bin/z3)
and cvc5 (binary).  usage: solver_diff.py <ID> [every-kth=50] [tier]"""
import glob, os, shutil, subprocess, sys, tempfile
from pathlib import Path

VERIF = Path(__file__).resolve().parent.parent
pid = sys.argv[1]
k = sys.argv[2] if len(sys.argv) > 2 else "50"
tier = sys.argv[3] if len(sys.argv) > 3 else "quick"
d = tempfile.mkdtemp(prefix="verif-smt-", dir="/tmp")
ev = VERIF / "evidence" / f"{pid}.json"
bak = ev.read_text() if ev.exists() else None
try:
    subprocess.run([str(VERIF / "check.py"), pid, "--tier", tier], env=dict(os.environ, VERIF_SMT_DUMP=f"{d}:{k}"), cwd=VERIF, capture_output=True)
    if bak is not None:
        ev.write_text(bak)
    files = sorted(glob.glob(d + "/*.smt2"))
    agree = {"z3-4.8.12": 0, "cvc5": 0}
    other = {"z3-4.8.12": [], "cvc5": []}
    for f in files:
        want = "unsat" if f.endswith("_unsat.smt2") else "sat"
        for name, cmd in (("z3-4.8.12", ["/usr/bin/z3", "-T:20", f]), ("cvc5", ["cvc5", "--tlimit=20000", f])):
            try:
                out = subprocess.run(cmd, capture_output=True, text=True, timeout=40).stdout.strip().splitlines()
                got = out[0] if out else "no-output"
            except subprocess.TimeoutExpired:
                got = "timeout"
            if "(error" in " ".join(out if isinstance(out, list) else []):
                got = "error"
            if got == want:
                agree[name] += 1
            else:
                other[name].append((os.path.basename(f), got))
    print(f"{pid}: {len(files)} sampled obligations (every {k}th); agreement with z3 5.1.0: " + ", ".join(f"{n} {a}/{len(files)}" for n, a in agree.items()))
    for n, lst in other.items():
        kinds = {}
        for _, g in lst:
            kinds[g] = kinds.get(g, 0) + 1
        if lst:
            print(f"  {n} differing answers: {kinds}  e.g. {lst[:2]}")
finally:
    shutil.rmtree(d, ignore_errors=True)
