#!/usr/bin/env python3
"""check.py <ID> [--tier quick|thorough] [--replay FILE]

Exit 0: property held on everything explored.  Exit 1 + `VIOLATION property=<id> replay=<path>`:
a counterexample that replays against the real code.  Exit 2: inconclusive / harness error.
"""

import argparse
import os
import subprocess
import sys
from pathlib import Path

VERIF = Path(__file__).resolve().parent
VENV_PY = VERIF / ".venv" / "bin" / "python"


def _ensure_venv():
    if Path(sys.executable).resolve() == VENV_PY.resolve() or os.environ.get("VERIF_IN_VENV") == "1":
        return
    if not VENV_PY.exists():
        subprocess.check_call(["bash", str(VERIF / "setup.sh")])
    env = dict(os.environ, VERIF_IN_VENV="1")
    os.execve(str(VENV_PY), [str(VENV_PY), "-W", "ignore", str(VERIF / "check.py")] + sys.argv[1:], env)


def main():
    _ensure_venv()
    sys.path.insert(0, str(VERIF))
    if os.environ.get("VERIF_REPO"):  # development only: analyse a scratch copy of the repository
        sys.path.insert(0, os.environ["VERIF_REPO"])
    os.environ.setdefault("UNDERSTANDING_SEARCH_MAZE_DATASET_VERIF", "1")
    import warnings

    warnings.filterwarnings("ignore")
    ap = argparse.ArgumentParser()
    ap.add_argument("prop")
    ap.add_argument("--tier", default=os.environ.get("VERIF_TIER", "quick"), choices=["quick", "thorough"])
    ap.add_argument("--replay")
    ap.add_argument("--record-history", nargs=2, metavar=("JOB", "OUT"), help="internal: re-explore one instance and record one model per path")
    ap.add_argument("--procs", type=int, default=None)
    a = ap.parse_args()
    seed = int(os.environ.get("VERIF_SEED", "0") or 0)
    from symx import runner

    if a.replay:
        sys.exit(runner.replay_file(a.replay))
    if a.record_history:
        sys.exit(runner.record_history(a.prop.upper(), *a.record_history))
    sys.exit(runner.run_property(a.prop.upper(), a.tier, seed, a.procs))


if __name__ == "__main__":
    main()
