"""CrossHair lemmas (engine C) for C07: the coordinate string codec and tokens_between.

Each lemma is a private wrapper around calls of the repository's real functions; CrossHair searches its
post-condition for a counterexample over all arguments admitted by the pre-conditions.  CHECKS holds the same
post-conditions as plain predicates for concrete replay of a reported counterexample.
"""
import warnings
from typing import List, Tuple

warnings.filterwarnings("ignore")
from maze_dataset.token_utils import (  # noqa: E402
    _coord_to_strings_indexed,
    _coord_to_strings_UT,
    coord_str_to_tuple,
    coord_str_to_tuple_noneable,
    str_is_coord,
    tokens_between,
)


def lemma_codec_ut(i: int, j: int) -> Tuple[int, ...]:
    """
    pre: 0 <= i < 1000 and 0 <= j < 1000
    post: _ == (i, j)
    """
    s = _coord_to_strings_UT((i, j))
    assert len(s) == 1
    return coord_str_to_tuple(s[0])


def lemma_is_coord_ut(i: int, j: int) -> bool:
    """
    pre: 0 <= i < 1000 and 0 <= j < 1000
    post: _ == True
    """
    t = _coord_to_strings_UT((i, j))[0]
    return str_is_coord(t) and t == "(" + str(i) + "," + str(j) + ")" and coord_str_to_tuple_noneable(t) == (i, j)


def lemma_codec_ctt(i: int, j: int) -> bool:
    """
    pre: 0 <= i < 1000 and 0 <= j < 1000
    post: _ == True
    """
    parts = _coord_to_strings_indexed((i, j))
    # the legacy parser re-joins indexed tokens with spaces and reads "( i , j )" as one coordinate
    return parts == ["(", str(i), ",", str(j), ")"] and coord_str_to_tuple(" ".join(parts)) == (i, j) and str_is_coord(" ".join(parts))


def lemma_special_not_coord(k: int) -> bool:
    """
    pre: 0 <= k < 11
    post: _ == True
    """
    specials = ["<ADJLIST_START>", "<ADJLIST_END>", "<TARGET_START>", "<TARGET_END>", "<ORIGIN_START>", "<ORIGIN_END>",
                "<PATH_START>", "<PATH_END>", "<-->", ";", "<PADDING>"]
    return coord_str_to_tuple_noneable(specials[k]) is None


def lemma_tokens_between(tokens: List[int], a: int, b: int, inc_s: bool, inc_e: bool) -> List[int]:
    """
    pre: a != b
    pre: len(tokens) <= 4
    pre: a in tokens and b in tokens
    pre: tokens.index(a) + (0 if inc_s else 1) < tokens.index(b) + (1 if inc_e else 0)
    post: _ == tokens[tokens.index(a) + (0 if inc_s else 1) : tokens.index(b) + (1 if inc_e else 0)]
    """
    return tokens_between(tokens, a, b, inc_s, inc_e)


def lemma_tokens_between_5(tokens: List[int], a: int, b: int, inc_s: bool, inc_e: bool) -> List[int]:
    """
    pre: a != b
    pre: len(tokens) <= 5
    pre: a in tokens and b in tokens
    pre: tokens.index(a) + (0 if inc_s else 1) < tokens.index(b) + (1 if inc_e else 0)
    post: _ == tokens[tokens.index(a) + (0 if inc_s else 1) : tokens.index(b) + (1 if inc_e else 0)]
    """
    return tokens_between(tokens, a, b, inc_s, inc_e)


def _tb_ok(tokens, a, b, inc_s, inc_e):
    return tokens_between(tokens, a, b, inc_s, inc_e) == tokens[tokens.index(a) + (0 if inc_s else 1): tokens.index(b) + (1 if inc_e else 0)]


CHECKS = {
    "lemma_codec_ut": lambda i, j: lemma_codec_ut(i, j) == (i, j),
    "lemma_is_coord_ut": lambda i, j: lemma_is_coord_ut(i, j) is True,
    "lemma_codec_ctt": lambda i, j: lemma_codec_ctt(i, j) is True,
    "lemma_special_not_coord": lambda k: lemma_special_not_coord(k) is True,
    "lemma_tokens_between": _tb_ok,
    "lemma_tokens_between_5": _tb_ok,
}
