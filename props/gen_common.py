"""Shared harness for the maze generators (C01, C12, C03): every RNG draw is a symbolic input.

`random`, `np.random` inside generators.py / lattice_maze.py are replaced by draw stubs whose
values are fresh symbolic integers/reals constrained only by each call's range.  For
percolation `rand < p` is a free bit per cell, so the generated maze is an arbitrary subgraph.
"""

from __future__ import annotations

import itertools

import numpy as np
import z3

from symx import concrete as C
from symx import rng as R
from symx.core import Inconclusive, SBool, Truncated, cur, is_sym, zb, zi
from symx.harness import patched, py_path, stubs_description
from symx.oracles import Lattice
from symx.snp import SArr, make_module

GENS = ["gen_dfs", "gen_prim", "gen_wilson", "gen_percolation", "gen_dfs_percolation"]


def lattice_of_output(cl, r, c):
    """Lattice oracle whose bits are the (possibly symbolic) entries of an output array"""
    o = cl.o if isinstance(cl, SArr) else cl
    bits = {}
    for d in range(2):
        for i in range(r):
            for j in range(c):
                bits[(d, i, j)] = zb(_el(o[d, i, j]))
    return Lattice(r, c, bits=bits)


def _el(x):
    if isinstance(x, np.generic):
        return x.item()
    return x


class GenEnv:
    """context: symbolic RNG installed in generators / lattice_maze (+ optional Wilson walk bound)"""

    def __init__(self, split=None, walk_bound=None, extra_np_modules=()):
        self.split = split
        self.walk_bound = walk_bound
        self.extra = list(extra_np_modules)

    def __enter__(self):
        import maze_dataset.generation.generators as g
        import maze_dataset.maze.lattice_maze as lm

        self.draws, rnd, npr, gen = R.symbolic_rng(split=self.split)
        self.mod = make_module(random=npr)
        self._saved = [(g, "np", g.np), (g, "random", g.random), (lm, "np", lm.np), (g, "get_neighbors_in_bounds", g.get_neighbors_in_bounds)]
        g.np = self.mod
        g.random = rnd
        lm.np = self.mod
        for mn in self.extra:
            import importlib

            m = importlib.import_module(mn)
            self._saved.append((m, "np", m.np))
            m.np = self.mod
        if self.walk_bound is not None:
            orig = g.get_neighbors_in_bounds
            cnt = [0]
            K = self.walk_bound

            def bounded(coord, shape):
                cnt[0] += 1
                if cnt[0] > K:
                    raise Truncated("wilson walk bound")
                return orig(coord, shape)

            g.get_neighbors_in_bounds = bounded
        return self

    def __exit__(self, *a):
        for obj, k, v in reversed(self._saved):
            setattr(obj, k, v)
        return False


class ScriptedEnv:
    """replay: the same draws fed into the real code (real numpy everywhere)"""

    def __init__(self, inputs, extra_np_modules=()):
        self.inputs = inputs
        self.extra = list(extra_np_modules)

    def __enter__(self):
        import maze_dataset.generation.generators as g
        import maze_dataset.maze.lattice_maze as lm

        self.draws, rnd, npr, gen = R.scripted_rng(self.inputs)
        mod = R.RealNpWithRandom(npr)
        self._saved = [(g, "np", g.np), (g, "random", g.random), (lm, "np", lm.np)]
        g.np = mod
        g.random = rnd
        lm.np = mod
        for mn in self.extra:
            import importlib

            m = importlib.import_module(mn)
            self._saved.append((m, "np", m.np))
            m.np = mod
        return self

    def __exit__(self, *a):
        for obj, k, v in reversed(self._saved):
            setattr(obj, k, v)
        return False


def call_generator(gen, r, c, kwargs):
    from maze_dataset.generation.generators import LatticeMazeGenerators

    kw = dict(kwargs)
    shape_dtype = kw.pop("_shape_dtype", None)  # harness-only key: the integer dtype in which the caller holds the grid shape (e.g. the library's own int8 Coord dtype)
    if "start_coord" in kw and kw["start_coord"] is not None:
        kw["start_coord"] = np.array(kw["start_coord"])
    return getattr(LatticeMazeGenerators, gen)(np.array([r, c], dtype=shape_dtype) if shape_dtype else np.array([r, c]), **kw)


def n_accessible(r, c, kwargs):
    ac = kwargs.get("accessible_cells")
    if ac is None:
        return r * c
    if isinstance(ac, float):
        return int(ac * r * c)
    return ac


# ----------------------------------------------------------------------------- obligations
def wellformed_obligations(gen, r, c, kwargs, maze):
    """C01"""
    cl = maze.connection_list
    obs = [("connection structure has the requested shape", z3.BoolVal(tuple(cl.shape) == (2, r, c))),
           ("connection structure is boolean", z3.BoolVal((cl.kind if isinstance(cl, SArr) else cl.dtype.kind) == "b"))]
    if tuple(cl.shape) != (2, r, c):
        return obs, None
    lat = lattice_of_output(cl, r, c)
    obs.append(("no connection leaves the grid", lat.boundary_clear()))
    default_tree = (gen in ("gen_dfs", "gen_prim", "gen_wilson")) and all(
        kwargs.get(k) is None for k in ("accessible_cells", "max_tree_depth")) and kwargs.get("do_forks", True)
    if default_tree:
        obs.append(("default arguments: exactly rows*cols-1 connections", lat.n_edges() == r * c - 1))
        obs.append(("default arguments: every cell reachable from every other", lat.connected()))
    if gen == "gen_percolation" and "p" in kwargs:
        if kwargs["p"] == 0:
            obs.append(("p=0: no connections", lat.n_edges() == 0))
        if kwargs["p"] == 1:
            obs.append(("p=1: every lattice edge", lat.n_edges() == len(lat.edge_idx)))
    return obs, lat


def meta_obligations(gen, r, c, kwargs, maze, lat):
    """C12"""
    meta = maze.generation_meta
    obs = []
    fc = bool(meta.get("fully_connected", False))
    vc = meta.get("visited_cells", None)
    if vc is not None:
        vset = {tuple(int(x) for x in v) for v in vc}
        sc = meta.get("start_coord")
        if sc is None:
            obs.append(("visited cells recorded together with a start cell", z3.BoolVal(False)))
        else:
            s = tuple(int(x) for x in sc)
            reach = lat.reach(s)
            obs.append(("every visited cell is reachable from the start cell", z3.And(*[reach[v] if v in reach else z3.BoolVal(False) for v in vset])))
            rest = [z3.Not(reach[v]) for v in lat.cells if v not in vset]
            obs.append(("every cell not recorded as visited is unreachable", z3.And(*rest) if rest else z3.BoolVal(True)))
    else:
        obs.append(("a maze not flagged fully connected records its visited cells", z3.BoolVal(fc)))
    if fc:
        obs.append(("flagged fully connected => connected", lat.connected()))
    if gen in ("gen_dfs", "gen_prim"):
        obs.append(("dfs: flag set exactly when connected", z3.BoolVal(fc) == lat.connected()))
        if vc is not None:
            vset = {tuple(int(x) for x in v) for v in vc}
            nacc = n_accessible(r, c, kwargs)
            obs.append(("dfs: connections form a tree over the visited cells (#edges = |visited|-1)", lat.n_edges() == len(vset) - 1))
            touching = [lat.bit[k] for k in lat.edge_idx if any(p not in vset for p in lat.ends(k))]
            obs.append(("dfs: no connection touches an unvisited cell", z3.Not(z3.Or(*touching)) if touching else z3.BoolVal(True)))
            obs.append(("dfs: never more cells than requested (beyond the start cell)", z3.BoolVal(len(vset) <= max(1, nacc))))
            if kwargs.get("max_tree_depth") is None and kwargs.get("do_forks", True) and 1 <= nacc <= r * c:
                obs.append(("dfs: exactly the requested number of cells when no depth/fork limit applies", z3.BoolVal(len(vset) == nacc)))
            if not kwargs.get("do_forks", True):
                obs.append(("dfs without forks: a single corridor (every degree <= 2)", z3.And(*[lat.degree(v) <= 2 for v in lat.cells])))
    return obs


def solution_obligations(lat, r, c, sol, start_pos, end_pos, endpoint_kwargs):
    """C03: the stored solution is a valid shortest simple path honouring the endpoint options"""
    obs = []
    sol = [tuple(int(x) for x in p) for p in sol]
    s, e = tuple(int(x) for x in start_pos), tuple(int(x) for x in end_pos)
    obs.append(("solution non-empty, starts at start_pos, ends at end_pos", z3.BoolVal(len(sol) > 0 and sol[0] == s and sol[-1] == e)))
    obs.append(("solution stays inside the grid", z3.BoolVal(all(0 <= i < r and 0 <= j < c for i, j in sol))))
    obs.append(("solution visits no cell twice", z3.BoolVal(len(set(sol)) == len(sol))))
    steps = []
    for a, b in zip(sol, sol[1:]):
        k = lat.edge_between(a, b)
        steps.append(lat.bit[k] if k is not None else z3.BoolVal(False))
    obs.append(("solution follows only existing connections", z3.And(*steps) if steps else z3.BoolVal(True)))
    L = len(sol) - 1
    if L > 0 and all(0 <= i < r and 0 <= j < c for i, j in (s, e)):
        obs.append(("solution is a shortest route", z3.Not(lat.reach_within(s, e, L - 1))))
    ek = endpoint_kwargs or {}
    special = any(ek.get(k) for k in ("allowed_start", "allowed_end", "deadend_start", "deadend_end"))
    if not special or ek.get("endpoints_not_equal"):
        obs.append(("endpoints distinct", z3.BoolVal(s != e)))
    if ek.get("allowed_start") is not None:
        obs.append(("start in allowed_start", z3.BoolVal(s in {tuple(x) for x in ek["allowed_start"]})))
    if ek.get("allowed_end") is not None:
        obs.append(("end in allowed_end", z3.BoolVal(e in {tuple(x) for x in ek["allowed_end"]})))
    if ek.get("deadend_start"):
        obs.append(("start is a dead end (degree 1)", lat.degree(s) == 1))
    if ek.get("deadend_end"):
        obs.append(("end is a dead end (degree 1)", lat.degree(e) == 1))
    return obs


# ----------------------------------------------------------------------------- concrete (replay) side
def concrete_checks(gen, r, c, kwargs, maze, want=("c01", "c12")):
    """independent concrete re-check of a generated maze; returns list of violation strings"""
    out = []
    cl = np.asarray(maze.connection_list)
    if "c01" in want:
        if cl.shape != (2, r, c) or cl.dtype != np.bool_:
            return [f"gen-shape | {gen}{kwargs} on {r}x{c}: shape {cl.shape} dtype {cl.dtype}"]
        if not C.boundary_clear(cl):
            out.append(f"gen-boundary | {gen}{kwargs} on {r}x{c}: connection leaves the grid {cl.astype(int).tolist()}")
        default_tree = (gen in ("gen_dfs", "gen_prim", "gen_wilson")) and all(
            kwargs.get(k) is None for k in ("accessible_cells", "max_tree_depth")) and kwargs.get("do_forks", True)
        if default_tree and not C.is_spanning_tree(cl):
            out.append(f"gen-not-spanning-tree | {gen}{kwargs} on {r}x{c}: {cl.astype(int).tolist()}")
        if gen == "gen_percolation" and kwargs.get("p") == 0 and C.n_edges(cl) != 0:
            out.append(f"gen-perc-p0 | connections at p=0: {cl.astype(int).tolist()}")
        if gen == "gen_percolation" and kwargs.get("p") == 1 and C.n_edges(cl) != r * (c - 1) + c * (r - 1):
            out.append(f"gen-perc-p1 | missing edges at p=1: {cl.astype(int).tolist()}")
    if "c12" in want and cl.shape == (2, r, c):
        meta = maze.generation_meta
        fc = bool(meta.get("fully_connected", False))
        vc = meta.get("visited_cells")
        conn_all = len(C.component(cl, (0, 0))) == r * c
        if vc is None and not fc:
            out.append(f"meta-no-visited | {gen}{kwargs}: not fully connected and no visited_cells")
        if vc is not None:
            vset = {tuple(int(x) for x in v) for v in vc}
            s = tuple(int(x) for x in meta["start_coord"])
            if vset != C.component(cl, s):
                out.append(f"meta-visited-wrong | {gen}{kwargs} on {r}x{c}: visited {sorted(vset)} but reachable from {s} is {sorted(C.component(cl, s))}; {cl.astype(int).tolist()}")
        if fc and not conn_all:
            out.append(f"meta-flag-wrong | {gen}{kwargs} on {r}x{c}: flagged fully connected but is not; {cl.astype(int).tolist()}")
        if gen in ("gen_dfs", "gen_prim"):
            if fc != conn_all:
                out.append(f"meta-dfs-flag | {gen}{kwargs} on {r}x{c}: flag {fc} connected {conn_all}")
            if vc is not None:
                vset = {tuple(int(x) for x in v) for v in vc}
                nacc = n_accessible(r, c, kwargs)
                if C.n_edges(cl) != len(vset) - 1:
                    out.append(f"meta-dfs-not-tree | {gen}{kwargs} on {r}x{c}: {C.n_edges(cl)} edges over {len(vset)} visited cells")
                if len(vset) > max(1, nacc):
                    out.append(f"meta-dfs-too-many | {gen}{kwargs} on {r}x{c}: {len(vset)} visited > {nacc} requested")
                if kwargs.get("max_tree_depth") is None and kwargs.get("do_forks", True) and 1 <= nacc <= r * c and len(vset) != nacc:
                    out.append(f"meta-dfs-count | {gen}{kwargs} on {r}x{c}: {len(vset)} visited, {nacc} requested")
                if not kwargs.get("do_forks", True) and any(C.degree(cl, v) > 2 for v in itertools.product(range(r), range(c))):
                    out.append(f"meta-dfs-corridor | {gen}{kwargs} on {r}x{c}: a cell of degree > 2 without forks")
    return out


def kwargs_grid(gen, r, c, tier, seed):
    """finite grid of generator arguments (not symbolic)"""
    rc = r * c
    cells = [(i, j) for i in range(r) for j in range(c)]
    rng = np.random.default_rng(seed + 31 * r + c)
    out = [dict()]
    if gen in ("gen_dfs", "gen_prim"):
        ac = [0, 1, 2, rc - 1, rc, rc + 1, 0.0, 0.5, 1.0]
        mtd = [0, 1, 2, 3, 0.5, 1.0]
        for a in ac:
            out.append(dict(accessible_cells=a))
        for m in mtd:
            out.append(dict(max_tree_depth=m))
        out.append(dict(do_forks=False))
        if gen == "gen_dfs":
            out.append(dict(randomized_stack=True))
        for sc in ([cells[0], cells[-1]] if tier == "quick" else cells):
            out.append(dict(start_coord=list(sc)))
        n_extra = 4 if tier == "quick" else 14
        for _ in range(n_extra):
            kw = {}
            if rng.random() < 0.7:
                kw["accessible_cells"] = ac[int(rng.integers(len(ac)))]
            if rng.random() < 0.6:
                kw["max_tree_depth"] = mtd[int(rng.integers(len(mtd)))]
            if rng.random() < 0.4:
                kw["do_forks"] = False
            if gen == "gen_dfs" and rng.random() < 0.3:
                kw["randomized_stack"] = True
            if rng.random() < 0.4:
                kw["start_coord"] = list(cells[int(rng.integers(len(cells)))])
            if kw and kw not in out:
                out.append(kw)
    elif gen == "gen_percolation":
        out = [dict(), dict(p=0), dict(p=1), dict(p=0.0), dict(p=1.0), dict(p=0.5), dict(p=0.4, start_coord=list(cells[-1])), dict(p=0.7, start_coord=list(cells[0]))]
    elif gen == "gen_dfs_percolation":
        out = [dict(), dict(p=0), dict(p=1), dict(p=0.5, accessible_cells=2), dict(p=0.3, max_tree_depth=1), dict(p=0.4, start_coord=list(cells[-1])),
               dict(p=0.0, accessible_cells=max(1, rc - 1))]
    # de-duplicate, JSON friendly
    uniq = []
    for k in out:
        if k not in uniq:
            uniq.append(k)
    return uniq


STUBS = stubs_description(np_modules=["maze_dataset.generation.generators", "maze_dataset.maze.lattice_maze"]) + [
    "random.choice/randint in generators.py -> fresh symbolic integer in the call's range (draw k = input rng<k>)",
    "np.random.randint/choice/rand in generators.py and lattice_maze.py -> fresh symbolic integers / reals in [0,1)",
    "get_neighbors_in_bounds (Wilson only) -> counting wrapper that cuts executions longer than the stated walk bound",
]
