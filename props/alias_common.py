"""Aliasing / mutation obligations shared by the property modules (concrete, `degenerate`).

A result must not share mutable state with the library, with its inputs or with other results: the harness calls a public function,
takes a snapshot of the result, then *scribbles* over everything mutable the caller legitimately owns - the returned arrays / lists /
tensors (and, separately, the argument arrays it passed in) - and asks the same question again.  The second answer must equal the
snapshot of the first.  On code that returns fresh objects this is a no-op; on code that hands out (or keeps) a shared buffer - an
`lru_cache`d array, a `cached_property`, `np.asarray` of an argument, a module-level table - the second answer is garbage.

Every case is a concrete call sequence on the real code with real numpy; nothing here is symbolic.  The cases are listed per property
in `CASES`; a property module registers them with `alias_harness(prop_id)`.
"""

from __future__ import annotations

import copy

import numpy as np
import z3


# ------------------------------------------------------------------------------------------ snapshot / scribble
def snapshot(x, depth=0):
    """plain, comparable, deep copy of a result"""
    if depth > 6:
        return "<deep>"
    try:
        import torch

        if isinstance(x, torch.Tensor):
            return ("tensor", x.detach().cpu().numpy().tolist())
    except Exception:
        pass
    if isinstance(x, np.ndarray):
        if x.dtype.kind == "f":
            x = np.where(np.isnan(x), -987654.25, x)  # NaN (the "wall" value of plots with cell values) must compare equal to itself
        return ("array", str(x.dtype), x.tolist())
    if isinstance(x, np.generic):
        return x.item()
    if isinstance(x, (list, tuple)):
        return [snapshot(e, depth + 1) for e in x]
    if isinstance(x, (set, frozenset)):
        return ("set", sorted((snapshot(e, depth + 1) for e in x), key=repr))
    if isinstance(x, dict):
        return {str(k): snapshot(v, depth + 1) for k, v in sorted(x.items(), key=lambda kv: str(kv[0])) if not str(k).startswith("_")}
    if hasattr(x, "connection_list"):  # a maze
        d = {"kind": type(x).__name__, "connection_list": snapshot(x.connection_list)}
        for f in ("start_pos", "end_pos", "solution"):
            if hasattr(x, f):
                d[f] = snapshot(getattr(x, f))
        gm = getattr(x, "generation_meta", None)
        if gm is not None:
            d["generation_meta"] = snapshot({k: v for k, v in gm.items() if k in ("start_coord", "visited_cells", "fully_connected", "grid_shape")}, depth + 1)
        return d
    if hasattr(x, "mazes") and hasattr(x, "cfg"):  # a dataset
        return {"mazes": [snapshot(m, depth + 1) for m in x.mazes]}
    if isinstance(x, (int, float, str, bool, type(None))):
        return x
    return repr(x)[:80]


def scribble(x, depth=0):
    """overwrite, in place, every mutable buffer reachable from a value the caller owns"""
    if depth > 6:
        return
    try:
        import torch

        if isinstance(x, torch.Tensor):
            x.add_(7) if x.dtype != torch.bool else x.logical_not_()
            return
    except Exception:
        pass
    if isinstance(x, np.ndarray):
        if not x.flags.writeable:
            return
        if x.dtype == np.bool_:
            np.logical_not(x, out=x)
        elif x.dtype.kind in "iuf":
            x[...] = x[::-1].copy() + 3 if x.ndim else x + 3
        return
    if isinstance(x, list):
        for e in x:
            scribble(e, depth + 1)
        x.reverse()
        x.append("scribbled") if not x or isinstance(x[0], str) else x.append(copy.deepcopy(x[0]))
        return
    if isinstance(x, tuple):
        for e in x:
            scribble(e, depth + 1)
        return
    if isinstance(x, set):
        x.add((97, 97))
        return
    if isinstance(x, dict):
        for v in list(x.values()):
            scribble(v, depth + 1)
        x["__scribbled__"] = True
        return
    if hasattr(x, "connection_list"):
        for f in ("connection_list", "start_pos", "end_pos", "solution"):
            if hasattr(x, f):
                scribble(getattr(x, f), depth + 1)
        gm = getattr(x, "generation_meta", None)
        if isinstance(gm, dict):
            for k in ("start_coord", "visited_cells"):
                if k in gm:
                    scribble(gm[k], depth + 1)
        return
    if hasattr(x, "mazes") and hasattr(x, "cfg"):
        for m in x.mazes:
            scribble(m, depth + 1)
        return


# ------------------------------------------------------------------------------------------ fixtures
def _maze3():
    from maze_dataset.maze.lattice_maze import LatticeMaze

    cl = np.zeros((2, 3, 3), dtype=bool)
    for k in [(0, 0, 0), (0, 1, 0), (1, 0, 0), (1, 0, 1), (0, 0, 2), (1, 1, 1), (1, 2, 0), (0, 1, 2)]:
        cl[k] = True
    return LatticeMaze(connection_list=cl)


def _solved3():
    from maze_dataset.maze.lattice_maze import SolvedMaze

    m = _maze3()
    return SolvedMaze(connection_list=m.connection_list.copy(), solution=np.array([(2, 0), (1, 0), (0, 0), (0, 1), (0, 2), (1, 2)]))


def _seed(s=11):
    import random

    random.seed(s)
    np.random.seed(s)


def _gen(name, shape, **kw):
    from maze_dataset.generation.generators import GENERATORS_MAP

    _seed()
    return GENERATORS_MAP[name](np.array(shape), **kw)


def _cfg(**kw):
    from maze_dataset import MazeDatasetConfig
    from maze_dataset.generation.generators import GENERATORS_MAP

    base = dict(name="alias", grid_n=3, n_mazes=3, seed=5, maze_ctor=GENERATORS_MAP["gen_dfs"])
    base.update(kw)
    return MazeDatasetConfig(**base)


def _dataset():
    from maze_dataset import MazeDataset

    return MazeDataset.generate(_cfg(), gen_parallel=False)


# ------------------------------------------------------------------------------------------ cases
# each case: (label, setup() -> ctx, ask(ctx) -> result, what the caller scribbles on: "result" | "args")
def _cases_c01():
    out = []
    for g, shape, kw in [("gen_dfs", (3, 3), {}), ("gen_wilson", (2, 3), {}), ("gen_percolation", (3, 4), dict(p=1.0)), ("gen_percolation", (3, 3), dict(p=0.5)),
                         ("gen_dfs_percolation", (3, 3), dict(p=1.0)), ("gen_dfs", (3, 3), dict(accessible_cells=4))]:
        out.append((f"{g}{shape}{kw}: the returned maze's arrays edited in place, then the same call again (re-seeded)", lambda: None, (lambda _c, g=g, shape=shape, kw=kw: _gen(g, shape, **kw)), "result"))
    return out


def _cases_c12():
    out = _cases_c01()

    def setup_sc():
        return dict(sc=np.array([1, 1]))

    for g, kw in [("gen_dfs", dict(accessible_cells=3)), ("gen_percolation", dict(p=0.3)), ("gen_dfs_percolation", dict(p=0.2, accessible_cells=3)), ("gen_prim", dict(accessible_cells=4))]:
        out.append((f"{g}(start_coord=<caller's array>, {kw}): the caller's start_coord array edited in place after the call", setup_sc,
                    (lambda c, g=g, kw=kw: _gen(g, (3, 3), start_coord=c["sc"], **kw)), "args"))
    return out


def _cases_c02():
    def setup():
        return dict(m=_maze3())

    out = [("find_shortest_path on one maze object: the returned path edited in place, then the same query again", setup, lambda c: c["m"].find_shortest_path((2, 0), (1, 2)), "result"),
           ("find_shortest_path on equal fresh mazes: the returned path edited in place, then the same query on a new equal maze", lambda: None, lambda _c: _maze3().find_shortest_path((0, 0), (2, 2)), "result")]

    def solved(_c):
        from maze_dataset.maze.lattice_maze import SolvedMaze, TargetedLatticeMaze

        m = _maze3()
        return SolvedMaze.from_targeted_lattice_maze(TargetedLatticeMaze(connection_list=m.connection_list, start_pos=np.array([2, 0]), end_pos=np.array([1, 2])))

    out.append(("SolvedMaze.from_targeted_lattice_maze: the solved maze edited in place, then solved again", lambda: None, solved, "result"))
    return out


def _cases_c13():
    def setup():
        return dict(m=_maze3(), s=_solved3())

    qs = [("get_nodes", lambda c: c["m"].get_nodes()), ("get_coord_neighbors((1,1))", lambda c: c["m"].get_coord_neighbors(np.array([1, 1]))),
          ("coord_degrees", lambda c: c["m"].coord_degrees()), ("get_connected_component", lambda c: c["m"].get_connected_component()),
          ("gen_connected_component_from((0,0))", lambda c: c["m"].gen_connected_component_from((0, 0))), ("as_adj_list(unshuffled)", lambda c: c["m"].as_adj_list(shuffle_d0=False, shuffle_d1=False)),
          ("get_solution_forking_points", lambda c: c["s"].get_solution_forking_points()), ("get_solution_path_following_points", lambda c: c["s"].get_solution_path_following_points())]
    out = [(f"{n}: the returned value edited in place, then asked again on the same maze", setup, f, "result") for n, f in qs]
    out += [(f"{n}: the returned value edited in place, then asked of a new equal maze", lambda: None, (lambda _c, f=f: f(dict(m=_maze3(), s=_solved3()))), "result") for n, f in qs[:4]]
    from maze_dataset.utils import lattice_connection_array, lattice_max_degrees

    out.append(("lattice_connection_array(3): result edited in place, then called again", lambda: None, lambda _c: lattice_connection_array(3), "result"))
    out.append(("lattice_max_degrees(3): result edited in place, then called again", lambda: None, lambda _c: lattice_max_degrees(3), "result"))
    return out


def _cases_c09():
    def setup():
        return dict(cl=_maze3().connection_list.copy(), s=np.array([2, 0]), e=np.array([1, 2]), sol=np.array([(2, 0), (1, 0), (0, 0)]))

    def targeted(c):
        from maze_dataset.maze.lattice_maze import TargetedLatticeMaze

        if "t" not in c:
            c["t"] = TargetedLatticeMaze(connection_list=c["cl"].copy(), start_pos=c["s"], end_pos=c["e"])
        return c["t"]

    def solved(c):
        from maze_dataset.maze.lattice_maze import SolvedMaze

        if "sm" not in c:
            c["sm"] = SolvedMaze(connection_list=c["cl"].copy(), solution=c["sol"])
        return dict(start=c["sm"].start_pos, end=c["sm"].end_pos, hash=hash(c["sm"]))

    return [("TargetedLatticeMaze(start_pos=<caller's array>, end_pos=<caller's array>): the caller edits its arrays in place after construction; the maze must keep its endpoints", setup, targeted, "args_reask"),
            ("SolvedMaze(solution=<caller's array>): the caller edits its array after construction; start, end and hash must not move", setup, solved, "args_reask")]


def _cases_c03_c04():
    def gen(_c):
        from maze_dataset import MazeDataset

        return MazeDataset.generate(_cfg(), gen_parallel=False)

    def gen_after_nodes(_c):
        from maze_dataset import MazeDataset

        ds = MazeDataset.generate(_cfg(), gen_parallel=False)
        return dict(ds=ds, nodes=ds.mazes[0].get_nodes(), comp=ds.mazes[0].get_connected_component())

    def from_cfg(_c):
        from maze_dataset import MazeDataset

        return MazeDataset.from_config(_cfg(applied_filters=[dict(name="path_length", args=(), kwargs=dict(min_length=2))]), load_local=False, save_local=False, do_download=False)

    return [("MazeDataset.generate(cfg): every array of the generated dataset edited in place, then generated again", lambda: None, gen, "result"),
            ("generate(cfg), get_nodes() and get_connected_component() of an item: all edited in place, then the same again", lambda: None, gen_after_nodes, "result"),
            ("from_config(cfg with a filter): result edited in place, then the same request again", lambda: None, from_cfg, "result")]


def _cases_c05():
    def setup():
        return dict(ds=_dataset())

    out = []

    def load_twice(c):
        from maze_dataset import MazeDataset

        if "blob" not in c:
            c["blob"] = c["ds"]._serialize_minimal()
        return MazeDataset.load(copy.deepcopy(c["blob"]))

    out.append(("load(minimal data): the loaded dataset edited in place, then loaded again from an untouched copy of the data", setup, load_twice, "result"))
    return out


def _cases_c06_c07():
    from maze_dataset.tokenization import MazeTokenizer, MazeTokenizerModular, TokenizationMode

    def setup():
        return dict(s=_solved3())

    out = []
    toks = [("modular default", lambda: MazeTokenizerModular()), ("legacy UT_uniform", lambda: MazeTokenizer(tokenization_mode=TokenizationMode.AOTP_UT_uniform, max_grid_size=5)),
            ("legacy CTT", lambda: MazeTokenizer(tokenization_mode=TokenizationMode.AOTP_CTT_indexed, max_grid_size=None))]
    for n, mk in toks:
        def setup_t(mk=mk):
            from maze_dataset.maze.lattice_maze import SolvedMaze

            s = _solved3()
            t = mk()
            _seed(3)
            tokens = s.as_tokens(t)
            return dict(s=s, t=t, tokens=tokens)

        out.append((f"from_tokens({n}): the parsed maze edited in place, then the same token list parsed again", setup_t,
                    (lambda c: type(c["s"]).from_tokens(list(c["tokens"]), c["t"])), "result"))
        out.append((f"from_tokens({n}, joined string): the parsed maze edited in place, then parsed again", setup_t,
                    (lambda c: type(c["s"]).from_tokens(" ".join(c["tokens"]), c["t"])), "result"))
    return out


def _cases_c14():
    from maze_dataset.utils import corner_first_ndindex

    out = [(f"corner_first_ndindex({n}): the returned list edited in place, then called again", lambda: None, (lambda _c, n=n: corner_first_ndindex(n)), "result") for n in (1, 3, 7)]
    out.append(("corner_first_ndindex(4, 2): the returned list edited in place, then called again", lambda: None, lambda _c: corner_first_ndindex(4, 2), "result"))

    def vocab_after(_c):
        from maze_dataset.tokenization import MazeTokenizer, TokenizationMode

        corner = corner_first_ndindex(4, 2)
        t = MazeTokenizer(tokenization_mode=TokenizationMode.AOTP_UT_uniform, max_grid_size=4)
        return dict(corner=corner, vocab=list(t.token_arr))

    out.append(("corner_first_ndindex(4, 2) edited in place, then a NEW uniform legacy tokenizer of that size builds its vocabulary", lambda: None, vocab_after, "result"))
    return out


def _cases_c15():
    from maze_dataset.tokenization import MazeTokenizerModular

    def setup():
        return dict(t=MazeTokenizerModular())

    return [("MazeTokenizerModular.serialize(): the returned dict edited in place, then serialized again (name, hash included)", setup,
             lambda c: dict(ser=c["t"].serialize(), name=c["t"].name, h=c["t"].hash_int()), "result")]


def _cases_c17():
    def setup():
        from maze_dataset.dataset.rasterized import RasterizedMazeDataset

        ds = _dataset()
        return dict(ds=ds, r=RasterizedMazeDataset.from_base_MazeDataset(ds, added_params=dict(remove_isolated_cells=True, extend_pixels=True, endpoints_as_open=False)))

    def direct(c):
        from maze_dataset.dataset.rasterized import process_maze_rasterized_input_target

        return process_maze_rasterized_input_target(c["ds"].mazes[1], remove_isolated_cells=True, extend_pixels=False, endpoints_as_open=True)

    return [("RasterizedMazeDataset[1]: the returned tensors edited in place, then read again", setup, lambda c: c["r"][1], "result"),
            ("get_batch([2, 0]): the returned batch edited in place, then read again", setup, lambda c: c["r"].get_batch([2, 0]), "result"),
            ("process_maze_rasterized_input_target(maze): the returned tensor edited in place, then computed again", setup, direct, "result")]


def _cases_c18():
    def setup():
        return dict(cfg=_cfg(maze_ctor_kwargs=dict(accessible_cells=5), endpoint_kwargs=dict(allowed_start=[(0, 0), (1, 1)], deadend_end=True)))

    # (serialize() of ONE configuration hands out that configuration's own kwargs dicts - editing them edits the configuration, on the unchanged
    # library too - so the case is: another, equal configuration must not be affected)
    return [("a second, equal configuration after the first one's serialize() output was edited in place", lambda: None,
             lambda _c: (lambda cfg: dict(ser=cfg.serialize(), h=cfg.stable_hash_cfg()))(_cfg(maze_ctor_kwargs=dict(accessible_cells=5))), "result")]


def _cases_c20():
    def plot(m, values=False):
        import maze_dataset.plotting.plot_maze as pm

        from props.c20 import FakeAx

        mp = pm.MazePlot(m, unit_length=4)
        if values:
            mp.add_node_values(np.arange(9, dtype=float).reshape(3, 3), hide_colorbar=True)
        ax = FakeAx()
        mp.plot(fig_ax=(None, ax))
        return dict(img=ax.images[0][0], lines=[(np.asarray(x), np.asarray(y)) for x, y, *_ in ax.plots])

    def other_first(_c):
        from maze_dataset.maze.lattice_maze import LatticeMaze

        cl = np.zeros((2, 3, 3), dtype=bool)
        cl[0, 0, 0] = cl[1, 2, 1] = True
        return dict(first=plot(_maze3()), second=plot(LatticeMaze(connection_list=cl)))

    return [("MazePlot(maze).plot(): the image handed to imshow edited in place, then an equal maze plotted again", lambda: None, lambda _c: plot(_maze3()), "result"),
            ("with cell values: the image edited in place, then plotted again", lambda: None, lambda _c: plot(_maze3(), values=True), "result"),
            ("two different mazes of the same size plotted one after the other, both images edited in place, then both again", lambda: None, other_first, "result")]


def _cases_c10():
    def setup():
        return dict(s=_solved3())

    return [("as_pixels(): the returned image edited in place, then rendered again on the same object", setup, lambda c: c["s"].as_pixels(), "result"),
            ("as_pixels(show_endpoints=True, show_solution=False) after the full rendering was edited in place", setup,
             lambda c: (c["s"].as_pixels(), c["s"].as_pixels(show_endpoints=True, show_solution=False))[1], "result"),
            ("from_pixels(as_pixels()): the parsed maze edited in place, then parsed again", setup, lambda c: type(c["s"]).from_pixels(c["s"].as_pixels()), "result"),
            ("from_ascii(as_ascii()): the parsed maze edited in place, then parsed again", setup, lambda c: type(c["s"]).from_ascii(c["s"].as_ascii()), "result")]


def _cases_c16():
    def setup():
        from maze_dataset import MazeDataset
        from maze_dataset.dataset.collected_dataset import MazeDatasetCollection, MazeDatasetCollectionConfig

        a, b = _dataset(), MazeDataset.generate(_cfg(name="alias2", n_mazes=2, seed=9), gen_parallel=False)
        return dict(coll=MazeDatasetCollection(MazeDatasetCollectionConfig(name="c", maze_dataset_configs=[a.cfg, b.cfg]), [a, b]))

    return [("dataset_lengths / dataset_cum_lengths: the returned values edited in place, then read again (and an item fetched)", setup,
             lambda c: dict(lengths=c["coll"].dataset_lengths, cum=c["coll"].dataset_cum_lengths, item3=snapshot(c["coll"][3])), "result_shallow")]


CASES = {"C01": _cases_c01, "C12": _cases_c12, "C02": _cases_c02, "C13": _cases_c13, "C09": _cases_c09, "C03": _cases_c03_c04, "C04": _cases_c03_c04, "C05": _cases_c05,
         "C06": _cases_c06_c07, "C07": _cases_c06_c07, "C14": _cases_c14, "C15": _cases_c15, "C17": _cases_c17, "C18": _cases_c18, "C20": _cases_c20, "C10": _cases_c10, "C16": _cases_c16}


# ------------------------------------------------------------------------------------------ the check
def alias_problem(prop_id, only=None):
    """first aliasing defect among the property's cases, or None"""
    import warnings

    warnings.filterwarnings("ignore")
    for k, (label, setup, ask, what) in enumerate(CASES[prop_id]()):
        if only is not None and k != only:
            continue
        try:
            ctx = setup()
            r1 = ask(ctx)
            s1 = snapshot(r1)
            if what in ("args", "args_reask"):
                # the caller edits, in place, the arrays it passed in: the object built from them must not change
                for k_, v in (ctx or {}).items():
                    if isinstance(v, np.ndarray) and k_ != "cl":
                        scribble(v)
                s2 = snapshot(ask(ctx)) if what == "args_reask" else snapshot(r1)  # args_reask: `ask` returns the object built on the first call
                ok = s2 == s1
            elif what == "result_ser":
                scribble(r1["ser"])
                r2 = ask(ctx)
                ok = snapshot(r2["ds"]) == s1["ds"] and snapshot(r2["ser"]) == s1["ser"]
                s2 = snapshot(r2)
            elif what == "result_shallow":
                for v in r1.values():
                    if isinstance(v, (np.ndarray, list)):
                        scribble(v)
                r2 = ask(ctx)
                s2 = snapshot(r2)
                ok = s2 == s1
            else:
                scribble(r1)
                r2 = ask(ctx)
                s2 = snapshot(r2)
                ok = s2 == s1
        except Exception as e:
            return f"result-aliases-state | {label}: the second call raised {type(e).__name__}: {str(e)[:120]}"
        if not ok:
            return f"result-aliases-state | {label}: the answer changed - first {str(s1)[:160]} ... then {str(s2)[:160]}"
    return None


def n_cases(prop_id):
    return len(CASES[prop_id]())


def alias_harness(prop_id):
    def run_factory(job):
        def run(ctx, pinned=None):
            from symx import harness as H

            with H.unpatched():
                p = alias_problem(prop_id)
            ctx.inputs["dummy"] = z3.IntVal(0)
            ctx.notes["problem"] = p
            ctx.notes["validated"] = n_cases(prop_id)
            return [(f"no result shares mutable state with the library, its arguments or another result ({n_cases(prop_id)} call sequences)", z3.BoolVal(p is None))]

        return run

    def replay(job, inputs, notes):
        return alias_problem(prop_id)

    return dict(run=run_factory, replay=replay, patch=dict(np_modules=[], stub_ascii=False), validate_every=0)


ALIAS_JOB = dict(h="alias", max_seconds=1500)
ALIAS_META = ("concrete call sequences on the real code: a result (or an argument array) is edited in place by the caller, then the same question is asked again "
              "and must get the same answer (results must not alias library state, arguments or each other)")
