"""C10 - pixel and ASCII renderings are faithful and invertible."""

from __future__ import annotations

import itertools

import numpy as np
import z3

from symx import concrete as C
from symx.core import Inconclusive, SBool, SInt, cur, fresh_bool, fresh_int, is_sym, zb, zi
from symx.harness import SNP, conn_from_cex, pin, py_path, stubs_description, sym_connection_list
from symx.oracles import Lattice
from symx.snp import SArr

from props import alias_common as _alias

ID = "C10"
WALL, OPEN, START, END, PATH = (0, 0, 0), (255, 255, 255), (0, 255, 0), (255, 0, 0), (0, 0, 255)
CH = {WALL: "#", OPEN: " ", START: "S", END: "E", PATH: "X"}
COMBOS = [(True, True), (True, False), (False, False)]  # accepted (show_endpoints, show_solution)


def _cls(name):
    import maze_dataset.maze.lattice_maze as lm

    return getattr(lm, name)


def _sym_path(ctx, lat, s, L):
    """a simple lattice path of L cells starting at s, chosen by solver-free forks; its edges are assumed set"""
    path = [s]
    while len(path) < L:
        u = path[-1]
        nb = [v for v, _ in lat.adj(u) if v not in path]
        if not nb:
            from symx.core import PathAbort

            raise PathAbort("dead end while choosing a path")
        v = nb[ctx.choose(len(nb))]
        ctx.solver.add(lat.bit[lat.edge_between(u, v)])
        path.append(v)
    return path


def _choose_path(ctx, lat, job):
    """the solution of a solved-maze instance: every simple path of L cells from the start cell (solver-free forks), or - on the
    larger grids - one given path whose connections are assumed set while all other bits stay symbolic"""
    if job.get("fixed_sol"):
        path = [tuple(p) for p in job["fixed_sol"]]
        on_path = set()
        for u, v in zip(path, path[1:]):
            ctx.solver.add(lat.bit[lat.edge_between(u, v)])
            on_path.add(lat.edge_between(u, v))
        if job.get("free_incident") is not None:
            # the reader walks along the solution and looks at every connection of every solution cell: to keep the number of paths
            # small only `free_incident` of those connections stay symbolic, the others get seeded concrete values in this instance
            # (all connections that touch no solution cell stay symbolic)
            inc = sorted({k for k in lat.edge_idx if k not in on_path and any(p in path for p in lat.ends(k))})
            rng = np.random.default_rng(len(inc) * 7 + lat.r * 31 + lat.c)
            keep = set(map(tuple, [inc[i] for i in rng.choice(len(inc), size=min(job["free_incident"], len(inc)), replace=False)]))
            for k in inc:
                if tuple(k) not in keep:
                    ctx.solver.add(lat.bit[k] == bool(rng.random() < 0.5))
        return path
    return _sym_path(ctx, lat, tuple(job["s"]), job["L"])


def _staircase(r, c, n):
    """a monotone (right/down) path of n cells from (0,0): always a shortest path, whatever the other connections are"""
    path, i, j = [(0, 0)], 0, 0
    while len(path) < n:
        if (len(path) % 3 != 0 and j + 1 < c) or i + 1 >= r:
            j += 1
        else:
            i += 1
        path.append((i, j))
    return [list(p) for p in path]


def _expected_pixel(lat, kind, s, e, sol, show_e, show_s, y, x):
    """expected colour of pixel (y, x) as a tuple of 3 z3 int terms.
    s, e: tuples of z3 terms or ints (None for an untargeted maze); sol: concrete cell list or None."""
    r, c = lat.r, lat.c

    def const(col):
        return tuple(z3.IntVal(v) for v in col)

    def ite3(cond, a, b):
        return tuple(z3.If(cond, p, q) for p, q in zip(a, b))

    if y % 2 == 0 and x % 2 == 0:
        return const(WALL)  # corners / border corners
    if y == 0 or x == 0 or y == 2 * r or x == 2 * c:
        return const(WALL)  # border
    if y % 2 == 1 and x % 2 == 1:
        cell = ((y - 1) // 2, (x - 1) // 2)
        col = const(OPEN)
        if kind == "SolvedMaze" and show_s and cell in sol:
            col = const(PATH)
        if kind != "LatticeMaze" and show_e:
            col = ite3(z3.And(s[0] == cell[0], s[1] == cell[1]), const(START), col)
            col = ite3(z3.And(e[0] == cell[0], e[1] == cell[1]), const(END), col)
        return col
    # between two cells
    if y % 2 == 0:
        a, b = ((y - 2) // 2, (x - 1) // 2), (y // 2, (x - 1) // 2)
    else:
        a, b = ((y - 1) // 2, (x - 2) // 2), ((y - 1) // 2, x // 2)
    k = lat.edge_between(a, b)
    bit = lat.bit[k]
    col = ite3(bit, const(OPEN), const(WALL))
    if kind == "SolvedMaze" and show_s:
        on_path = any({a, b} == {p, q} for p, q in zip(sol, sol[1:]))
        if on_path:
            col = const(PATH)
    return col


def _img_obligations(lat, kind, s, e, sol, show_e, show_s, px, label):
    r, c = lat.r, lat.c
    obs = [(f"{label}: image size (2r+1)x(2c+1)x3", z3.BoolVal(tuple(px.shape) == (2 * r + 1, 2 * c + 1, 3)))]
    if tuple(px.shape) != (2 * r + 1, 2 * c + 1, 3):
        return obs
    conds = []
    for y in range(2 * r + 1):
        for x in range(2 * c + 1):
            exp = _expected_pixel(lat, kind, s, e, sol, show_e, show_s, y, x)
            for ch in range(3):
                conds.append(zi(px[y, x, ch]) == exp[ch])
    obs.append((f"{label}: every pixel has the documented colour", z3.And(*conds)))
    return obs


# ---------------------------------------------------------------------------------------- rendering
def _build(kind, cl, s, e, sol):
    if kind == "LatticeMaze":
        return _cls(kind)(connection_list=cl)
    if kind == "TargetedLatticeMaze":
        return _cls(kind)(connection_list=cl, start_pos=s, end_pos=e)
    return _cls(kind)(connection_list=cl, solution=np.array(sol))


def _run_render(job):
    kind, r, c = job["kind"], job["r"], job["c"]
    order = job["order"]

    def run(ctx, pinned=None):
        cl, lat = sym_connection_list(r, c)
        s = e = sol = None
        if kind == "TargetedLatticeMaze":
            si, sj = fresh_int("si", 0, r - 1), fresh_int("sj", 0, c - 1)
            ei, ej = fresh_int("ei", 0, r - 1), fresh_int("ej", 0, c - 1)
            s = (ctx.inputs["si"], ctx.inputs["sj"])
            e = (ctx.inputs["ei"], ctx.inputs["ej"])
            m = _build(kind, cl, SNP.array([si, sj]), SNP.array([ei, ej]), None)
        elif kind == "SolvedMaze":
            sol = _choose_path(ctx, lat, job)
            ctx.inputs["sol"] = z3.IntVal(0)
            ctx.notes["sol"] = [list(p) for p in sol]
            s, e = sol[0], sol[-1]
            m = _build(kind, cl, None, None, sol)
        else:
            m = _build(kind, cl, None, None, None)
        obs = []
        # several renderings of the SAME object in sequence: a rendering must not depend on earlier ones
        for (se, ss) in [COMBOS[i] for i in order]:
            px = m.as_pixels(show_endpoints=se, show_solution=ss)
            obs += _img_obligations(lat, kind, s, e, sol, se, ss, px, f"as_pixels({se},{ss})")
        try:
            m.as_pixels(show_endpoints=False, show_solution=True)
            obs.append(("show_solution without show_endpoints raises ValueError", z3.BoolVal(False)))
        except ValueError:
            obs.append(("show_solution without show_endpoints raises ValueError", z3.BoolVal(True)))
        return obs

    return run


def _concrete_expected(cl, kind, s, e, sol, show_e, show_s):
    r, c = cl.shape[1:]
    img = np.zeros((2 * r + 1, 2 * c + 1, 3), dtype=np.uint8)
    for i in range(r):
        for j in range(c):
            img[2 * i + 1, 2 * j + 1] = OPEN
            if i + 1 < r and cl[0, i, j]:
                img[2 * i + 2, 2 * j + 1] = OPEN
            if j + 1 < c and cl[1, i, j]:
                img[2 * i + 1, 2 * j + 2] = OPEN
    if kind == "SolvedMaze" and show_s:
        for p in sol:
            img[2 * p[0] + 1, 2 * p[1] + 1] = PATH
        for p, q in zip(sol, sol[1:]):
            img[p[0] + q[0] + 1, p[1] + q[1] + 1] = PATH
    if kind != "LatticeMaze" and show_e:
        img[2 * s[0] + 1, 2 * s[1] + 1] = START
        img[2 * e[0] + 1, 2 * e[1] + 1] = END
    return img


def _ascii_of(img):
    return "\n".join("".join(CH[tuple(int(v) for v in px)] for px in row) for row in img)


def _concrete_maze(job, inputs, notes):
    kind, r, c = job["kind"], job["r"], job["c"]
    cl = conn_from_cex(inputs, r, c)
    s = e = sol = None
    if kind == "TargetedLatticeMaze":
        s, e = (inputs["si"], inputs["sj"]), (inputs["ei"], inputs["ej"])
    elif kind == "SolvedMaze":
        sol = [tuple(p) for p in notes["sol"]]
        s, e = sol[0], sol[-1]
    return cl, s, e, sol, _build(kind, cl, s, e, sol)


def _replay_render(job, inputs, notes):
    kind = job["kind"]
    cl, s, e, sol, m = _concrete_maze(job, inputs, notes)
    tag = f"{kind} {job['r']}x{job['c']} start={s} end={e} solution={sol} connection_list={cl.astype(int).tolist()}"
    for (se, ss) in [COMBOS[i] for i in job["order"]]:
        px = m.as_pixels(show_endpoints=se, show_solution=ss)
        exp = _concrete_expected(cl, kind, s, e, sol, se, ss)
        if px.shape != exp.shape or not np.array_equal(px, exp):
            key = "pixels-endpoints-missing" if (se and not ss and kind == "SolvedMaze" and not (px == np.array(START)).all(-1).any()) else "pixels-wrong"
            return f"{key}:{kind} | as_pixels(show_endpoints={se}, show_solution={ss}) after order {job['order']}: picture differs from the documented one; {tag}"
        asc = m.as_ascii(show_endpoints=se, show_solution=ss)
        if asc != _ascii_of(exp):
            return f"ascii-wrong:{kind} | as_ascii(show_endpoints={se}, show_solution={ss}) differs from the picture; {tag}"
    try:
        m.as_pixels(show_endpoints=False, show_solution=True)
        return f"pixels-no-valueerror:{kind} | show_solution=True with show_endpoints=False did not raise"
    except ValueError:
        pass
    return None


def _run_ascii(job):
    """ASCII drawing == character map of the documented picture (all inputs forked: exhaustive within the bound)"""
    kind, r, c = job["kind"], job["r"], job["c"]

    def run(ctx, pinned=None):
        cl, lat = sym_connection_list(r, c)
        s = e = sol = None
        if kind == "TargetedLatticeMaze":
            cells = [(i, j) for i in range(r) for j in range(c)]
            s = cells[ctx.choose(len(cells))]
            e = cells[ctx.choose(len(cells))]
            ctx.inputs.update(si=z3.IntVal(s[0]), sj=z3.IntVal(s[1]), ei=z3.IntVal(e[0]), ej=z3.IntVal(e[1]))
        elif kind == "SolvedMaze":
            sol = _sym_path(ctx, lat, tuple(job["s"]), job["L"])
            ctx.notes["sol"] = [list(p) for p in sol]
            s, e = sol[0], sol[-1]
        # fork all bits now so that the expected picture is concrete
        bits = np.zeros((2, r, c), dtype=bool)
        for k in lat.edge_idx:
            bits[k] = bool(SBool(lat.bit[k]))
        m = _build(kind, bits, s, e, sol)
        obs = []
        for (se, ss) in [COMBOS[i] for i in job["order"]]:
            asc = m.as_ascii(show_endpoints=se, show_solution=ss)
            exp = _ascii_of(_concrete_expected(bits, kind, s, e, sol, se, ss))
            obs.append((f"as_ascii({se},{ss}) is the picture character for character", z3.BoolVal(asc == exp)))
        return obs

    return run


# ------------------------------------------------------------------------------- pixel grid parsing
def _run_from_bw(job):
    H, W = job["H"], job["W"]

    def run(ctx, pinned=None):
        px = SNP.zeros((H, W), dtype=np.bool_)
        for y in range(H):
            for x in range(W):
                px.o[y, x] = fresh_bool(f"px_{y}_{x}")
        if pinned:
            pin(pinned)
        cl, shape = _cls("LatticeMaze")._from_pixel_grid_bw(px)
        r, c = H // 2, W // 2
        obs = [("grid shape is (H//2, W//2)", z3.BoolVal(tuple(shape) == (r, c) and tuple(cl.shape) == (2, r, c)))]
        conds = []
        for i in range(r):
            for j in range(c):
                conds.append(zb(cl[0, i, j]) == ctx.inputs[f"px_{2 * i + 2}_{2 * j + 1}"])
                conds.append(zb(cl[1, i, j]) == ctx.inputs[f"px_{2 * i + 1}_{2 * j + 2}"])
        obs.append(("down/right connection <=> the pixel between the two cells is open", z3.And(*conds) if conds else z3.BoolVal(True)))
        return obs

    return run


def _replay_from_bw(job, inputs, notes):
    H, W = job["H"], job["W"]
    px = np.array([[bool(inputs.get(f"px_{y}_{x}", False)) for x in range(W)] for y in range(H)])
    cl, shape = _cls("LatticeMaze")._from_pixel_grid_bw(px)
    r, c = H // 2, W // 2
    for i in range(r):
        for j in range(c):
            if bool(cl[0, i, j]) != px[2 * i + 2, 2 * j + 1] or bool(cl[1, i, j]) != px[2 * i + 1, 2 * j + 2]:
                return f"from_pixels-bw-wrong | cell ({i},{j}) of a {H}x{W} picture"
    return None if tuple(shape) == (r, c) else f"from_pixels-bw-shape | {shape}"


# -------------------------------------------------------------------------------------- round trips
def _run_roundtrip(job):
    kind, r, c, via = job["kind"], job["r"], job["c"], job["via"]

    def run(ctx, pinned=None):
        cl, lat = sym_connection_list(r, c)
        s = e = sol = None
        cells = [(i, j) for i in range(r) for j in range(c)]
        if kind == "TargetedLatticeMaze":
            s = tuple(job["s"]) if job.get("s") is not None else cells[ctx.choose(len(cells))]
            rest = [x for x in cells if x != s]
            e = rest[ctx.choose(len(rest))]
            ctx.inputs.update(si=z3.IntVal(s[0]), sj=z3.IntVal(s[1]), ei=z3.IntVal(e[0]), ej=z3.IntVal(e[1]))
        elif kind == "SolvedMaze":
            sol = _choose_path(ctx, lat, job)
            ctx.notes["sol"] = [list(p) for p in sol]
            s, e = sol[0], sol[-1]
            # precondition of the property: the solution is a shortest path (start != end since L >= 2)
            ctx.solver.add(z3.Not(lat.reach_within(s, e, len(sol) - 2)))
        if via == "ascii":
            # character arrays cannot hold symbolic characters: fork every bit first (degenerate)
            bits = np.zeros((2, r, c), dtype=bool)
            for k in lat.edge_idx:
                bits[k] = bool(SBool(lat.bit[k]))
            cl = bits
        m = _build(kind, cl, s, e, sol)
        try:
            if via == "pixels":
                m2 = type(m).from_pixels(m.as_pixels())
            else:
                m2 = type(m).from_ascii(m.as_ascii())
        except Inconclusive:
            raise
        except Exception as ex:
            return [(f"reading the rendering back never fails (got {type(ex).__name__}: {str(ex)[:60]})", z3.BoolVal(False))]
        obs = [("same kind", z3.BoolVal(type(m2) is type(m)))]
        cl2 = m2.connection_list
        obs.append(("same shape", z3.BoolVal(tuple(cl2.shape) == (2, r, c))))
        if tuple(cl2.shape) == (2, r, c):
            obs.append(("identical connection structure", z3.And(*[zb(cl2[k]) == lat.bit[k] for k in lat.all_idx])))
        if kind != "LatticeMaze":
            obs.append(("same start and end", z3.BoolVal(tuple(int(x) for x in m2.start_pos) == s and tuple(int(x) for x in m2.end_pos) == e)))
        if kind == "SolvedMaze":
            obs.append(("solution in its original order", z3.BoolVal(py_path(m2.solution) == sol)))
        return obs

    return run


def _replay_roundtrip(job, inputs, notes):
    kind, via = job["kind"], job["via"]
    cl, s, e, sol, m = _concrete_maze(job, inputs, notes)
    if kind == "SolvedMaze" and C.dist(cl, s, e) != len(sol) - 1:
        return None  # outside the property's precondition
    tag = f"{kind} {job['r']}x{job['c']} start={s} end={e} solution={sol} connection_list={cl.astype(int).tolist()}"
    try:
        m2 = type(m).from_pixels(m.as_pixels()) if via == "pixels" else type(m).from_ascii(m.as_ascii())
    except Inconclusive:
        raise
    except Exception as ex:
        return f"roundtrip-raises:{via} | {type(ex).__name__}: {str(ex)[:80]}; {tag}"
    if type(m2) is not type(m) or m2.connection_list.shape != cl.shape or not np.array_equal(m2.connection_list, cl):
        return f"roundtrip-maze-differs:{via} | kind {type(m2).__name__} connection_list {np.asarray(m2.connection_list).astype(int).tolist()}; {tag}"
    if kind != "LatticeMaze" and (tuple(int(x) for x in m2.start_pos) != tuple(s) or tuple(int(x) for x in m2.end_pos) != tuple(e)):
        return f"roundtrip-endpoints-differ:{via} | got {m2.start_pos.tolist()} {m2.end_pos.tolist()}; {tag}"
    if kind == "SolvedMaze" and [tuple(int(x) for x in p) for p in m2.solution] != sol:
        return f"roundtrip-solution-differs:{via} | read back {np.asarray(m2.solution).tolist()}; {tag}"
    return None


# ------------------------------------------------------------------------------------------ jobs
def jobs(tier, seed):
    q = tier == "quick"
    out = []
    orders = [[0, 1, 2], [2, 1, 0], [1, 0, 2]]
    small = [(1, 1), (1, 2), (2, 2), (2, 3)] if q else [(1, 1), (1, 2), (2, 1), (2, 2), (2, 3), (3, 2)]
    for r, c in small + [(3, 3)]:
        big = r * c >= 9
        for kind in ("LatticeMaze", "TargetedLatticeMaze"):
            for o in (orders[:1] if big else orders):
                out.append(dict(h="render", kind=kind, r=r, c=c, order=o, max_seconds=3300))
        starts = [(i, j) for i in range(r) for j in range(c)]
        if big:
            starts = [(0, 0), (1, 1), (2, 1)] if q else starts
        for s in starts:
            for L in range(1, (4 if q else 5) + 1):
                if L > r * c:
                    continue
                for o in (orders[:1] if (big or L > 2) else orders):
                    out.append(dict(h="render", kind="SolvedMaze", r=r, c=c, s=list(s), L=L, order=o, max_seconds=3300))
    for r, c in [(2, 2), (2, 3)] if q else [(2, 2), (2, 3), (3, 2)]:
        out.append(dict(h="ascii", kind="LatticeMaze", r=r, c=c, order=[0, 1, 2]))
        out.append(dict(h="ascii", kind="TargetedLatticeMaze", r=r, c=c, order=[2, 0, 1]))
        for s in [(0, 0), (r - 1, c - 1)]:
            for L in (1, 2, 3):
                out.append(dict(h="ascii", kind="SolvedMaze", r=r, c=c, s=list(s), L=L, order=[0, 2, 1]))
    # larger and oblong grids (one path each: every connection bit stays symbolic through the merged renderer / the reader)
    for r, c in ([(5, 9), (9, 5), (12, 12), (1, 13)] if q else [(5, 9), (9, 5), (12, 12), (1, 13), (13, 1), (7, 12), (16, 16)]):
        out.append(dict(h="render", kind="LatticeMaze", r=r, c=c, order=[0, 1, 2], max_seconds=3300))
        out.append(dict(h="roundtrip", kind="LatticeMaze", r=r, c=c, via="pixels", max_seconds=3300))
        if r > 1 and c > 1:
            n = min(r + c - 1, 14)
            out.append(dict(h="render", kind="SolvedMaze", r=r, c=c, fixed_sol=_staircase(r, c, n), order=[2, 0, 1], max_seconds=3300))
            if r * c <= 60 or not q:
                out.append(dict(h="roundtrip", kind="SolvedMaze", r=r, c=c, fixed_sol=_staircase(r, c, n), free_incident=4 if q else 7, via="pixels", max_seconds=3300))
    for r, c in ([(4, 7), (7, 4)] if q else [(4, 7), (7, 4), (6, 6), (12, 12)]):
        out.append(dict(h="render", kind="TargetedLatticeMaze", r=r, c=c, order=[1, 0, 2], max_seconds=3300))
    for H, W in ([(1, 1), (3, 3), (5, 7), (9, 9), (17, 17)] if q else [(1, 1), (3, 3), (3, 9), (5, 7), (9, 9), (17, 17), (25, 25), (31, 13)]):
        out.append(dict(h="from_bw", H=H, W=W))
    for via in ("pixels", "ascii"):
        for r, c in [(1, 2), (2, 2), (2, 3)] + ([] if q else [(3, 2), (1, 4)]) + ([(3, 3)] if via == "pixels" or not q else []):
            big = r * c >= 9
            out.append(dict(h="roundtrip", kind="LatticeMaze", r=r, c=c, via=via, max_seconds=3300))
            if big and not q:
                for s0 in [(i, j) for i in range(r) for j in range(c)]:  # one instance per start cell (a single instance did not finish in 55 minutes)
                    out.append(dict(h="roundtrip", kind="TargetedLatticeMaze", r=r, c=c, via=via, s=list(s0), max_seconds=3300))
            elif not big:
                out.append(dict(h="roundtrip", kind="TargetedLatticeMaze", r=r, c=c, via=via, max_seconds=3300))
            starts = [(i, j) for i in range(r) for j in range(c)]
            if big:
                starts = [(0, 0), (1, 1), (0, 1)] if q else starts
            for s in starts:
                for L in range(2, (5 if q else 6) + 1):
                    if L > r * c or (big and q and L > 4):
                        continue
                    out.append(dict(h="roundtrip", kind="SolvedMaze", r=r, c=c, s=list(s), L=L, via=via, max_seconds=3300))
    out.append(dict(_alias.ALIAS_JOB))  # results must not alias library state, arguments or each other (props/alias_common.py)
    out[0]["twin"] = True
    return out


def _PATCH():
    import maze_dataset.maze.lattice_maze as lm
    from symx.merge import merged

    new, n = merged(lm.LatticeMaze._as_pixels_bw)
    if n == 0:  # nothing to merge any more: run the code as it is (branches fork)
        return dict(np_modules=["maze_dataset.maze.lattice_maze"], stub_ascii=False)
    return dict(np_modules=["maze_dataset.maze.lattice_maze"], stub_ascii=False,
                extra={("maze_dataset.maze.lattice_maze", "LatticeMaze"): {"_as_pixels_bw": new}})


HARNESSES = {
    "render": dict(run=_run_render, replay=_replay_render, patch=_PATCH),
    "ascii": dict(run=_run_ascii, replay=_replay_render, patch=_PATCH),
    "from_bw": dict(run=_run_from_bw, replay=_replay_from_bw, patch=_PATCH),
    "roundtrip": dict(run=_run_roundtrip, replay=_replay_roundtrip, patch=_PATCH),
}
HARNESSES["alias"] = _alias.alias_harness("C10")

META = dict(
    functions=["LatticeMaze._as_pixels_bw", "as_pixels", "_as_ascii_grid", "as_ascii", "_from_pixel_grid_bw", "_from_pixel_grid_with_positions", "from_pixels",
               "from_ascii", "detect_pixels_type", "color_in_pixel_grid"],
    bounds=dict(
        quick="all connection bits symbolic; rendering: grids 1x1..2x3 and 3x3, untargeted / targeted (start, end symbolic cells) / solved (every simple "
              "path of 1..4 cells from each start cell, 3 start cells on 3x3) x the three accepted option combinations rendered on the SAME object in "
              "up to 3 different orders; _from_pixel_grid_bw with a fully symbolic picture up to 17x17 px; pixel and ASCII round trips on <=2x3 and 3x3 "
              "for every simple shortest path of 2..5 cells (2..4 on 3x3); larger / oblong grids 5x9, 9x5, 12x12, 1x13 with every connection bit symbolic in one path: rendering and pixel round trip of "
              "untargeted mazes and of solved mazes with one given staircase solution (<= 14 cells; in the round trip only 4 of the connections that touch a solution cell stay symbolic, the reader forks on those), targeted rendering with symbolic endpoints on 4x7 and 7x4",
        thorough="adds 2x1, 3x2, 1x4 grids, paths of 5 (render) / 6 (round trip) cells, all 9 start cells on 3x3, pictures up to 31x13 / 25x25 px",
    ),
    degenerate=dict(ascii="all inputs forked (string arrays cannot hold symbolic characters)",
                    roundtrip="the solution is chosen by solver-free forks among all simple paths; bits stay symbolic until the reader inspects them"),
    stubs=stubs_description(np_modules=["maze_dataset.maze.lattice_maze"], stub_ascii=False) + [
        "LatticeMaze._as_pixels_bw -> state-merged version rebuilt from its current source on every run: `if connected: grid[k] = True` becomes "
        "`grid[k] = ite(connected, True, grid[k])` (symx/merge.py), so rendering is one path for all mazes"],
    outside=["exhaustive treatment of solutions and endpoint pairs on grids beyond 3x3 (there: all connection structures, but one given staircase solution per grid and symbolic endpoints only up to 7x4; 12x12 thorough)", "solutions longer than the bound or with repeated cells", "round trip when start == end or the solution is not a shortest path "
             "(excluded by the property)", "pictures that are not renderings of a maze"],
    assumptions=["representation invariant on input mazes", "solutions are simple paths along set connections"],
)

META.setdefault("degenerate", {})["alias"] = _alias.ALIAS_META
