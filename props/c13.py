"""C13 - all graph queries on a maze agree with its connection structure.

One harness per view, all against the same incidence oracle (symx.oracles.Lattice).
"""

from __future__ import annotations

import itertools

import numpy as np
import z3

from symx import rng as R
from symx.core import SBool, SInt, cur, fresh_int, is_sym, zb, zi
from symx.harness import SNP, conn_from_cex, pin, py_path, stubs_description, sym_connection_list
from symx.oracles import Lattice
from symx.snp import SArr, make_module

from props import alias_common as _alias

ID = "C13"


def _edge_expr(lat, a, b):
    """z3: cells a=(ai,aj), b=(bi,bj) (z3 int terms) are joined by a set connection"""
    (ai, aj), (bi, bj) = a, b
    alts = []
    for k in lat.edge_idx:
        (u, v) = lat.ends(k)
        fw = z3.And(ai == u[0], aj == u[1], bi == v[0], bj == v[1])
        bw = z3.And(ai == v[0], aj == v[1], bi == u[0], bj == u[1])
        alts.append(z3.And(lat.bit[k], z3.Or(fw, bw)))
    return z3.Or(*alts) if alts else z3.BoolVal(False)


def _shapes(tier, maxcells):
    return [(r, c) for r in range(1, 7) for c in range(1, 7) if r * c <= maxcells]


# -------------------------------------------------------------------------------- nodes_connected
def _run_nodes_connected(job):
    from maze_dataset.maze.lattice_maze import LatticeMaze

    r, c = job["r"], job["c"]

    def run(ctx, pinned=None):
        cl, lat = sym_connection_list(r, c)
        a = [fresh_int("ai", 0, r - 1), fresh_int("aj", 0, c - 1)]
        b = [fresh_int("bi", 0, r - 1), fresh_int("bj", 0, c - 1)]
        if pinned:
            pin(pinned)
        av = [ctx.inputs[n] for n in ("ai", "aj")]
        bv = [ctx.inputs[n] for n in ("bi", "bj")]
        m = LatticeMaze(connection_list=cl)
        res = m.nodes_connected(SNP.array(a), SNP.array(b))
        ctx.notes["sig"] = res
        return [("nodes_connected == incidence oracle", zb(res) == _edge_expr(lat, av, bv))]

    return run


def _real_conn(cl, a, b):
    (ai, aj), (bi, bj) = a, b
    if abs(ai - bi) + abs(aj - bj) != 1:
        return False
    d = 0 if ai != bi else 1
    return bool(cl[d, min(ai, bi), min(aj, bj)])


def _replay_nodes_connected(job, inputs, notes):
    from maze_dataset.maze.lattice_maze import LatticeMaze

    r, c = job["r"], job["c"]
    cl = conn_from_cex(inputs, r, c)
    a = (inputs["ai"], inputs["aj"])
    b = (inputs["bi"], inputs["bj"])
    got = bool(LatticeMaze(connection_list=cl).nodes_connected(np.array(a), np.array(b)))
    if got != _real_conn(cl, a, b):
        return f"nodes_connected-wrong | nodes_connected({a},{b})={got}, connection_list={cl.astype(int).tolist()}"
    return None


def _sig_nodes_connected(job, inputs):
    from maze_dataset.maze.lattice_maze import LatticeMaze

    cl = conn_from_cex(inputs, job["r"], job["c"])
    return bool(LatticeMaze(connection_list=cl).nodes_connected(np.array((inputs["ai"], inputs["aj"])), np.array((inputs["bi"], inputs["bj"]))))


def _rand_bits(rng, r, c, p=0.55):
    bits = rng.random((2, r, c)) < p
    return {f"c_{d}_{i}_{j}": bool(bits[d, i, j]) and ((i + 1 < r) if d == 0 else (j + 1 < c))
            for d in range(2) for i in range(r) for j in range(c)}


def _pinned_nodes_connected(job, seed):
    r, c = job["r"], job["c"]
    rng = np.random.default_rng(seed * 101 + r * 7 + c)
    out = []
    for _ in range(3):
        d = _rand_bits(rng, r, c)
        ai, aj = int(rng.integers(r)), int(rng.integers(c))
        nb = [(ai + di, aj + dj) for di, dj in ((0, 1), (1, 0), (0, -1), (-1, 0), (0, 0), (1, 1)) if 0 <= ai + di < r and 0 <= aj + dj < c]
        bi, bj = nb[int(rng.integers(len(nb)))]
        d.update(ai=ai, aj=aj, bi=bi, bj=bj)
        out.append(d)
    return out


# ---------------------------------------------------------------------------------- is_valid_path
def _run_is_valid_path(job):
    from maze_dataset.maze.lattice_maze import LatticeMaze

    r, c, L, eiv = job["r"], job["c"], job["L"], job["empty_is_valid"]

    def run(ctx, pinned=None):
        cl, lat = sym_connection_list(r, c)
        pts = [(fresh_int(f"p{k}i", -1, r), fresh_int(f"p{k}j", -1, c)) for k in range(L)]
        if pinned:
            pin(pinned)
        m = LatticeMaze(connection_list=cl)
        if L == 0:
            path = np.zeros((0, 2), dtype=int)
        else:
            path = SNP.array([[i, j] for i, j in pts])
        res = m.is_valid_path(path, empty_is_valid=eiv)
        pv = [(ctx.inputs[f"p{k}i"], ctx.inputs[f"p{k}j"]) for k in range(L)]
        if L == 0:
            exp = z3.BoolVal(bool(eiv))
        else:
            inb = z3.And(*[z3.And(i >= 0, i < r, j >= 0, j < c) for i, j in pv])
            steps = z3.And(*[_edge_expr(lat, pv[k], pv[k + 1]) for k in range(L - 1)]) if L > 1 else z3.BoolVal(True)
            exp = z3.And(inb, steps)
        ctx.notes["sig"] = res
        return [("is_valid_path == (non-empty, in bounds, every step a connection)", zb(res) == exp)]

    return run


def _real_valid(cl, path, eiv):
    r, c = cl.shape[1:]
    if len(path) == 0:
        return bool(eiv)
    if not all(0 <= i < r and 0 <= j < c for i, j in path):
        return False
    return all(_real_conn(cl, a, b) for a, b in zip(path, path[1:]))


def _path_of(inputs, L):
    return [(inputs[f"p{k}i"], inputs[f"p{k}j"]) for k in range(L)]


def _replay_is_valid_path(job, inputs, notes):
    from maze_dataset.maze.lattice_maze import LatticeMaze

    cl = conn_from_cex(inputs, job["r"], job["c"])
    path = _path_of(inputs, job["L"])
    arr = np.array(path) if path else np.zeros((0, 2), dtype=int)
    got = bool(LatticeMaze(connection_list=cl).is_valid_path(arr, empty_is_valid=job["empty_is_valid"]))
    if got != _real_valid(cl, path, job["empty_is_valid"]):
        return f"is_valid_path-wrong | is_valid_path({path})={got}, connection_list={cl.astype(int).tolist()}"
    return None


def _sig_is_valid_path(job, inputs):
    from maze_dataset.maze.lattice_maze import LatticeMaze

    cl = conn_from_cex(inputs, job["r"], job["c"])
    path = _path_of(inputs, job["L"])
    arr = np.array(path) if path else np.zeros((0, 2), dtype=int)
    return bool(LatticeMaze(connection_list=cl).is_valid_path(arr, empty_is_valid=job["empty_is_valid"]))


def _pinned_is_valid_path(job, seed):
    r, c, L = job["r"], job["c"], job["L"]
    rng = np.random.default_rng(seed * 13 + r * 5 + c * 3 + L)
    out = []
    for t in range(3):
        d = _rand_bits(rng, r, c, 0.7)
        cur_ = (int(rng.integers(r)), int(rng.integers(c)))
        for k in range(L):
            d[f"p{k}i"], d[f"p{k}j"] = cur_
            di, dj = ((0, 1), (1, 0), (0, -1), (-1, 0))[int(rng.integers(4))]
            nxt = (cur_[0] + di, cur_[1] + dj)
            if t < 2 and not (0 <= nxt[0] < r and 0 <= nxt[1] < c):
                nxt = cur_
            nxt = (min(max(nxt[0], -1), r), min(max(nxt[1], -1), c))
            cur_ = nxt
        out.append(d)
    return out


# ---------------------------------------------------------------------------------- coord_degrees
def _run_coord_degrees(job):
    from maze_dataset.maze.lattice_maze import LatticeMaze

    r, c = job["r"], job["c"]

    def run(ctx, pinned=None):
        cl, lat = sym_connection_list(r, c)
        if pinned:
            pin(pinned)
        deg = LatticeMaze(connection_list=cl).coord_degrees()
        obs = [("shape", z3.BoolVal(tuple(deg.shape) == (r, c)))]
        conds = [zi(deg[i, j]) == lat.degree((i, j)) for (i, j) in lat.cells]
        obs.append(("degree of every cell == number of set incident edges", z3.And(*conds)))
        ctx.notes["sig"] = [[deg[i, j] for j in range(c)] for i in range(r)]
        return obs

    return run


def _real_degrees(cl):
    r, c = cl.shape[1:]
    out = [[0] * c for _ in range(r)]
    for i in range(r):
        for j in range(c):
            for v in ((i + 1, j), (i, j + 1), (i - 1, j), (i, j - 1)):
                if 0 <= v[0] < r and 0 <= v[1] < c and _real_conn(cl, (i, j), v):
                    out[i][j] += 1
    return out


def _replay_coord_degrees(job, inputs, notes):
    from maze_dataset.maze.lattice_maze import LatticeMaze

    cl = conn_from_cex(inputs, job["r"], job["c"])
    got = LatticeMaze(connection_list=cl).coord_degrees()
    if got.shape != cl.shape[1:] or got.tolist() != _real_degrees(cl):
        return f"coord_degrees-wrong | got {got.tolist()} expected {_real_degrees(cl)}, connection_list={cl.astype(int).tolist()}"
    return None


def _sig_coord_degrees(job, inputs):
    from maze_dataset.maze.lattice_maze import LatticeMaze

    return LatticeMaze(connection_list=conn_from_cex(inputs, job["r"], job["c"])).coord_degrees().tolist()


def _pinned_bits(job, seed):
    rng = np.random.default_rng(seed * 17 + job["r"] * 11 + job["c"])
    return [_rand_bits(rng, job["r"], job["c"]) for _ in range(2)]


# ---------------------------------------------------------------------------- get_coord_neighbors
def _run_neighbors(job):
    from maze_dataset.maze.lattice_maze import LatticeMaze

    r, c, cell = job["r"], job["c"], tuple(job["cell"])

    def run(ctx, pinned=None):
        cl, lat = sym_connection_list(r, c)
        if pinned:
            pin(pinned)
        nb = LatticeMaze(connection_list=cl).get_coord_neighbors(np.array(cell))
        got = py_path(nb) if len(nb) else []
        ctx.notes["sig"] = sorted([list(x) for x in got])
        obs = [("no duplicate neighbours", z3.BoolVal(len(set(got)) == len(got)))]
        adj = dict(lat.adj(cell))
        obs.append(("every returned cell is a connected lattice neighbour",
                    z3.And(*[adj[v] if v in adj else z3.BoolVal(False) for v in got]) if got else z3.BoolVal(True)))
        missing = [b for v, b in adj.items() if v not in got]
        obs.append(("no connected neighbour is missing", z3.Not(z3.Or(*missing)) if missing else z3.BoolVal(True)))
        # no cross-talk between mazes: the same query on a different maze of a different shape, then again on this one
        other = LatticeMaze(connection_list=np.ones((2, c + 1, r + 2), dtype=bool))
        other.get_coord_neighbors(np.array(cell))
        other.coord_degrees()
        nb2 = LatticeMaze(connection_list=cl).get_coord_neighbors(np.array(cell))
        obs.append(("the same query after querying a different maze gives the same neighbours", z3.BoolVal((py_path(nb2) if len(nb2) else []) == got)))
        return obs

    return run


def _replay_neighbors(job, inputs, notes):
    from maze_dataset.maze.lattice_maze import LatticeMaze

    r, c, cell = job["r"], job["c"], tuple(job["cell"])
    cl = conn_from_cex(inputs, r, c)
    nb = LatticeMaze(connection_list=cl).get_coord_neighbors(np.array(cell))
    got = sorted(tuple(int(x) for x in row) for row in nb)
    exp = sorted(v for v in ((cell[0] + 1, cell[1]), (cell[0], cell[1] + 1), (cell[0] - 1, cell[1]), (cell[0], cell[1] - 1))
                 if 0 <= v[0] < r and 0 <= v[1] < c and _real_conn(cl, cell, v))
    if got != exp:
        return f"get_coord_neighbors-wrong | cell {cell}: got {got} expected {exp}, connection_list={cl.astype(int).tolist()}"
    other = LatticeMaze(connection_list=np.ones((2, c + 1, r + 2), dtype=bool))
    other.get_coord_neighbors(np.array(cell))
    other.coord_degrees()
    again = sorted(tuple(int(x) for x in row) for row in LatticeMaze(connection_list=cl).get_coord_neighbors(np.array(cell)))
    if again != exp:
        return f"get_coord_neighbors-depends-on-history | cell {cell}: {again} after querying another maze, expected {exp}"
    return None


def _sig_neighbors(job, inputs):
    from maze_dataset.maze.lattice_maze import LatticeMaze

    cl = conn_from_cex(inputs, job["r"], job["c"])
    nb = LatticeMaze(connection_list=cl).get_coord_neighbors(np.array(tuple(job["cell"])))
    return sorted([int(x) for x in row] for row in nb)


# -------------------------------------------------------------------- gen_connected_component_from
def _run_component(job):
    from maze_dataset.maze.lattice_maze import LatticeMaze

    r, c, cell = job["r"], job["c"], tuple(job["cell"])

    def run(ctx, pinned=None):
        cl, lat = sym_connection_list(r, c)
        if pinned:
            pin(pinned)
        if job.get("fix"):
            pin(job["fix"])  # this instance covers the mazes with these bits; sibling instances cover the other values
        comp = LatticeMaze(connection_list=cl).gen_connected_component_from(np.array(cell))
        got = py_path(comp)
        ctx.notes["sig"] = sorted([list(x) for x in got])
        reach = lat.reach(cell)
        gs = set(got)
        obs = [("no duplicates", z3.BoolVal(len(gs) == len(got))),
               ("every returned cell is reachable (in every completion)", z3.And(*[reach[v] for v in gs])),
               ("every cell not returned is unreachable (in every completion)",
                z3.And(*[z3.Not(reach[v]) for v in lat.cells if v not in gs]) if len(gs) < len(lat.cells) else z3.BoolVal(True))]
        return obs

    return run


def _real_component(cl, s):
    r, c = cl.shape[1:]
    seen = {s}
    st = [s]
    while st:
        u = st.pop()
        for v in ((u[0] + 1, u[1]), (u[0], u[1] + 1), (u[0] - 1, u[1]), (u[0], u[1] - 1)):
            if 0 <= v[0] < r and 0 <= v[1] < c and v not in seen and _real_conn(cl, u, v):
                seen.add(v)
                st.append(v)
    return sorted(seen)


def _replay_component(job, inputs, notes):
    from maze_dataset.maze.lattice_maze import LatticeMaze

    cl = conn_from_cex(inputs, job["r"], job["c"])
    cell = tuple(job["cell"])
    comp = LatticeMaze(connection_list=cl).gen_connected_component_from(np.array(cell))
    got = [tuple(int(x) for x in row) for row in comp]
    if len(set(got)) != len(got) or sorted(got) != _real_component(cl, cell):
        return f"connected_component-wrong | from {cell}: got {sorted(got)} expected {_real_component(cl, cell)}, connection_list={cl.astype(int).tolist()}"
    return None


def _sig_component(job, inputs):
    from maze_dataset.maze.lattice_maze import LatticeMaze

    cl = conn_from_cex(inputs, job["r"], job["c"])
    return sorted([int(x) for x in row] for row in LatticeMaze(connection_list=cl).gen_connected_component_from(np.array(tuple(job["cell"]))))


# -------------------------------------------------------------------------------------- adjacency
def _adj_np_module(draws):
    _, _, npr, _ = draws
    return make_module(random=npr)


def _run_adj_list(job):
    from maze_dataset.maze.lattice_maze import LatticeMaze

    r, c, sh0, sh1 = job["r"], job["c"], job["shuffle_d0"], job["shuffle_d1"]

    def run(ctx, pinned=None):
        cl, lat = sym_connection_list(r, c)
        if pinned:
            pin(pinned)
        adj = LatticeMaze(connection_list=cl).as_adj_list(shuffle_d0=sh0, shuffle_d1=sh1)
        arr = adj if isinstance(adj, np.ndarray) else adj.concrete()
        if arr is None:
            arr = np.array([[[int(x) for x in p] for p in e] for e in adj.o])
        ents = [tuple(tuple(int(x) for x in p) for p in e) for e in arr]
        ctx.notes["sig"] = sorted(sorted([list(p) for p in e]) for e in ents)
        obs = [("shape (n,2,2)", z3.BoolVal(arr.shape[1:] == (2, 2) if len(ents) else True))]
        ks = []
        ok = True
        for a, b in ents:
            k = lat.edge_between(a, b)
            if k is None:
                ok = False
            ks.append(k)
            if not sh1 and k is not None and (a, b) != lat.ends(k):
                ok = False  # without shuffle_d1 the smaller coord comes first
        obs.append(("every entry is a lattice edge (smaller coord first unless shuffled)", z3.BoolVal(ok)))
        if ok:
            obs.append(("each entry is a set connection", z3.And(*[lat.bit[k] for k in ks]) if ks else z3.BoolVal(True)))
            obs.append(("each connection listed exactly once", z3.And(
                z3.BoolVal(len(set(ks)) == len(ks)),
                *[z3.Not(lat.bit[k]) for k in lat.edge_idx if k not in ks])))
            if not sh0:
                obs.append(("without shuffle_d0 entries follow array order", z3.BoolVal(ks == sorted(ks))))
        return obs

    return run


def _patch_adj():
    return {}


def _replay_adj_list(job, inputs, notes):
    import maze_dataset.token_utils as tu
    from maze_dataset.maze.lattice_maze import LatticeMaze

    r, c = job["r"], job["c"]
    cl = conn_from_cex(inputs, r, c)
    _, _, npr, _ = R.scripted_rng(inputs)
    old = tu.np
    tu.np = R.RealNpWithRandom(npr)
    try:
        adj = LatticeMaze(connection_list=cl).as_adj_list(shuffle_d0=job["shuffle_d0"], shuffle_d1=job["shuffle_d1"])
    finally:
        tu.np = old
    ents = [tuple(tuple(int(x) for x in p) for p in e) for e in adj]
    exp = set()
    for d in range(2):
        for i in range(r):
            for j in range(c):
                if cl[d, i, j]:
                    exp.add(frozenset([(i, j), (i + (d == 0), j + (d == 1))]))
    got = [frozenset(e) for e in ents]
    if len(got) != len(set(got)) or set(got) != exp:
        return f"adj_list-wrong | as_adj_list gives {ents}, connection_list={cl.astype(int).tolist()}"
    if not job["shuffle_d1"] and any(a > b for a, b in ents):
        return f"adj_list-orientation | unshuffled entry has larger coord first: {ents}"
    return None


def _sig_adj_list(job, inputs):
    import maze_dataset.token_utils as tu
    from maze_dataset.maze.lattice_maze import LatticeMaze

    cl = conn_from_cex(inputs, job["r"], job["c"])
    _, _, npr, _ = R.scripted_rng(inputs)
    old = tu.np
    tu.np = R.RealNpWithRandom(npr)
    try:
        adj = LatticeMaze(connection_list=cl).as_adj_list(shuffle_d0=job["shuffle_d0"], shuffle_d1=job["shuffle_d1"])
    finally:
        tu.np = old
    return sorted(sorted([int(x) for x in p] for p in e) for e in adj)


def _run_adj_list_wrapped(job):
    inner = _run_adj_list(job)

    def run(ctx, pinned=None):
        import maze_dataset.token_utils as tu

        draws = R.symbolic_rng()
        old = tu.np
        tu.np = make_module(random=draws[2])
        try:
            return inner(ctx, pinned)
        finally:
            tu.np = old

    return run


def _pinned_adj(job, seed):
    rng = np.random.default_rng(seed * 19 + job["r"] * 11 + job["c"])
    out = []
    for _ in range(2):
        d = _rand_bits(rng, job["r"], job["c"])
        nset = sum(1 for v in d.values() if v)
        for k in range(16):
            d[f"rng{k}"] = [int(rng.integers(100)), 100] if job["shuffle_d1"] and k < nset else 0
        out.append(d)
    return out


# ---------------------------------------------------------------------------------- from_adj_list
def _sym_edge(name, n):
    """a symbolic lattice edge on an n x n grid in symbolic orientation: returns ((ai,aj),(bi,bj)) SInts"""
    i = fresh_int(f"{name}i", 0, n - 1)
    j = fresh_int(f"{name}j", 0, n - 1)
    d = fresh_int(f"{name}d", 0, 1)
    f = fresh_int(f"{name}f", 0, 1)  # flipped?
    ctx = cur()
    iv, jv, dv = ctx.inputs[f"{name}i"], ctx.inputs[f"{name}j"], ctx.inputs[f"{name}d"]
    ctx.solver.add(z3.If(dv == 0, iv + 1 < n, jv + 1 < n))
    oi = SInt(z3.If(dv == 0, iv + 1, iv))
    oj = SInt(z3.If(dv == 1, jv + 1, jv))
    fv = ctx.inputs[f"{name}f"]
    a = (SInt(z3.If(fv == 0, iv, oi.e)), SInt(z3.If(fv == 0, jv, oj.e)))
    b = (SInt(z3.If(fv == 0, oi.e, iv)), SInt(z3.If(fv == 0, oj.e, jv)))
    return a, b


def _run_from_adj_list(job):
    from maze_dataset.maze.lattice_maze import LatticeMaze

    n, E = job["n"], job["E"]

    def run(ctx, pinned=None):
        edges = [_sym_edge(f"e{k}", n) for k in range(E)]
        if pinned:
            pin(pinned)
        adj = SNP.array([[[a[0], a[1]], [b[0], b[1]]] for a, b in edges])
        m = LatticeMaze.from_adj_list(adj)
        cl = m.connection_list
        g = int(cl.shape[1])
        # inferred grid size is (largest index)+1
        mx = None
        for k in range(E):
            iv, jv, dv = ctx.inputs[f"e{k}i"], ctx.inputs[f"e{k}j"], ctx.inputs[f"e{k}d"]
            hi = z3.If(dv == 0, z3.If(iv + 1 >= jv, iv + 1, jv), z3.If(jv + 1 >= iv, jv + 1, iv))
            mx = hi if mx is None else z3.If(hi >= mx, hi, mx)
        obs = [("grid size == largest index + 1", mx + 1 == g), ("square (2,g,g) array", z3.BoolVal(tuple(cl.shape) == (2, g, g)))]
        conds = []
        for d in range(2):
            for i in range(g):
                for j in range(g):
                    listed = z3.Or(*[z3.And(ctx.inputs[f"e{k}d"] == d, ctx.inputs[f"e{k}i"] == i, ctx.inputs[f"e{k}j"] == j) for k in range(E)])
                    conds.append(zb(cl[d, i, j]) == listed)
        obs.append(("bit set <=> that edge is listed (either orientation)", z3.And(*conds)))
        return obs

    return run


def _edges_of(inputs, E):
    out = []
    for k in range(E):
        i, j, d, f = (inputs[f"e{k}{x}"] for x in "ijdf")
        a, b = (i, j), (i + (d == 0), j + (d == 1))
        out.append((b, a) if f else (a, b))
    return out


def _replay_from_adj_list(job, inputs, notes):
    from maze_dataset.maze.lattice_maze import LatticeMaze

    edges = _edges_of(inputs, job["E"])
    m = LatticeMaze.from_adj_list(np.array(edges))
    g = max(max(max(p) for p in e) for e in edges) + 1
    exp = np.zeros((2, g, g), dtype=bool)
    for a, b in edges:
        lo = min(a, b)
        exp[0 if a[0] != b[0] else 1, lo[0], lo[1]] = True
    if m.connection_list.shape != exp.shape or not np.array_equal(m.connection_list, exp):
        return f"from_adj_list-wrong | edges {edges} -> {m.connection_list.astype(int).tolist()} expected {exp.astype(int).tolist()}"
    return None


def _run_from_adj_list_invalid(job):
    """entries whose two cells are equal or differ in both coordinates must raise ValueError"""
    from maze_dataset.maze.lattice_maze import LatticeMaze

    n = job["n"]

    def run(ctx, pinned=None):
        a = (fresh_int("ai", 0, n - 1), fresh_int("aj", 0, n - 1))
        b = (fresh_int("bi", 0, n - 1), fresh_int("bj", 0, n - 1))
        av = (ctx.inputs["ai"], ctx.inputs["aj"])
        bv = (ctx.inputs["bi"], ctx.inputs["bj"])
        one_match = z3.Xor(av[0] == bv[0], av[1] == bv[1])
        adj = SNP.array([[[a[0], a[1]], [b[0], b[1]]]])
        try:
            LatticeMaze.from_adj_list(adj)
        except ValueError:
            return [("ValueError only when not exactly one coordinate matches", z3.Not(one_match))]
        return [("accepted only when exactly one coordinate matches", one_match)]

    return run


def _replay_from_adj_list_invalid(job, inputs, notes):
    from maze_dataset.maze.lattice_maze import LatticeMaze

    a, b = (inputs["ai"], inputs["aj"]), (inputs["bi"], inputs["bj"])
    one = (a[0] == b[0]) != (a[1] == b[1])
    try:
        LatticeMaze.from_adj_list(np.array([[a, b]]))
        raised = False
    except ValueError:
        raised = True
    if raised == one:
        return f"from_adj_list-validation | entry {a},{b}: raised={raised}"
    return None


# ------------------------------------------------------------------------- adjacency round trip
def _run_adj_roundtrip(job):
    from maze_dataset.maze.lattice_maze import LatticeMaze

    n = job["n"]

    def run(ctx, pinned=None):
        cl, lat = sym_connection_list(n, n)
        if pinned:
            pin(pinned)
        # precondition: the highest index occurs in some connection
        touching = [lat.bit[k] for k in lat.edge_idx if any(n - 1 in p for p in lat.ends(k))]
        ctx.solver.add(z3.Or(*touching))
        adj = LatticeMaze(connection_list=cl).as_adj_list(shuffle_d0=False, shuffle_d1=False)
        m2 = LatticeMaze.from_adj_list(adj)
        cl2 = m2.connection_list
        obs = [("same shape", z3.BoolVal(tuple(cl2.shape) == (2, n, n)))]
        if tuple(cl2.shape) == (2, n, n):
            obs.append(("same connection structure", z3.And(*[zb(cl2[k]) == lat.bit[k] for k in lat.all_idx])))
        return obs

    return run


def _replay_adj_roundtrip(job, inputs, notes):
    from maze_dataset.maze.lattice_maze import LatticeMaze

    n = job["n"]
    cl = conn_from_cex(inputs, n, n)
    m2 = LatticeMaze.from_adj_list(LatticeMaze(connection_list=cl).as_adj_list(shuffle_d0=False, shuffle_d1=False))
    if m2.connection_list.shape != cl.shape or not np.array_equal(m2.connection_list, cl):
        return f"adj_roundtrip-wrong | {cl.astype(int).tolist()} -> {m2.connection_list.astype(int).tolist()}"
    return None


# ---------------------------------------------------------------------------------- is_connection
def _run_is_connection(job):
    from maze_dataset.token_utils import is_connection

    n, E = job["n"], job["E"]

    def run(ctx, pinned=None):
        cl, lat = sym_connection_list(n, n)
        edges = [_sym_edge(f"e{k}", n) for k in range(E)]
        if pinned:
            pin(pinned)
        arr = SNP.array([[[a[0], a[1]], [b[0], b[1]]] for a, b in edges])
        res = is_connection(arr, cl)
        obs = [("one answer per edge", z3.BoolVal(tuple(res.shape) == (E,)))]
        for k in range(E):
            iv, jv, dv = ctx.inputs[f"e{k}i"], ctx.inputs[f"e{k}j"], ctx.inputs[f"e{k}d"]
            exp = z3.Or(*[z3.And(dv == d, iv == i, jv == j, lat.bit[(d, i, j)]) for (d, i, j) in lat.edge_idx])
            obs.append((f"edge {k}: is_connection == bit of that lattice edge", zb(res[k]) == exp))
        ctx.notes["sig"] = [res[k] for k in range(E)]
        return obs

    return run


def _replay_is_connection(job, inputs, notes):
    from maze_dataset.token_utils import is_connection

    n = job["n"]
    cl = conn_from_cex(inputs, n, n)
    edges = _edges_of(inputs, job["E"])
    got = [bool(x) for x in is_connection(np.array(edges), cl)]
    exp = [_real_conn(cl, a, b) for a, b in edges]
    if got != exp:
        return f"is_connection-wrong | edges {edges}: got {got} expected {exp}, connection_list={cl.astype(int).tolist()}"
    return None


def _sig_is_connection(job, inputs):
    from maze_dataset.token_utils import is_connection

    cl = conn_from_cex(inputs, job["n"], job["n"])
    return [bool(x) for x in is_connection(np.array(_edges_of(inputs, job["E"])), cl)]


def _pinned_is_connection(job, seed):
    n, E = job["n"], job["E"]
    rng = np.random.default_rng(seed * 23 + n)
    out = []
    for _ in range(3):
        d = _rand_bits(rng, n, n)
        for k in range(E):
            dd = int(rng.integers(2))
            i = int(rng.integers(n - 1 if dd == 0 else n))
            j = int(rng.integers(n - 1 if dd == 1 else n))
            d.update({f"e{k}i": i, f"e{k}j": j, f"e{k}d": dd, f"e{k}f": int(rng.integers(2))})
        out.append(d)
    return out


# ------------------------------------------------------------------------- manhattan / lattice utils
def _run_manhattan(job):
    from maze_dataset.utils import manhattan_distance

    E = job["E"]

    def run(ctx, pinned=None):
        pts = [[(fresh_int(f"m{k}a0", -300, 300), fresh_int(f"m{k}a1", -300, 300)),
                (fresh_int(f"m{k}b0", -300, 300), fresh_int(f"m{k}b1", -300, 300))] for k in range(E)]
        for k in range(E):  # int8 result: claim is for distances that fit
            v = [ctx.inputs[f"m{k}{x}"] for x in ("a0", "a1", "b0", "b1")]
            ctx.solver.add(_zabs(v[0] - v[2]) + _zabs(v[1] - v[3]) <= 127)
        if pinned:
            pin(pinned)
        arr = SNP.array([[[a[0], a[1]], [b[0], b[1]]] for a, b in pts])
        res = manhattan_distance(arr)
        obs = []
        for k in range(E):
            v = [ctx.inputs[f"m{k}{x}"] for x in ("a0", "a1", "b0", "b1")]
            obs.append((f"edge {k}: |dr|+|dc|", zi(res[k]) == _zabs(v[0] - v[2]) + _zabs(v[1] - v[3])))
        single = manhattan_distance(arr[0])
        v = [ctx.inputs[f"m0{x}"] for x in ("a0", "a1", "b0", "b1")]
        obs.append(("single pair form", zi(single.item() if hasattr(single, "item") else single) == _zabs(v[0] - v[2]) + _zabs(v[1] - v[3])))
        return obs

    return run


def _zabs(e):
    return z3.If(e >= 0, e, -e)


def _replay_manhattan(job, inputs, notes):
    from maze_dataset.utils import manhattan_distance

    E = job["E"]
    pts = [[(inputs[f"m{k}a0"], inputs[f"m{k}a1"]), (inputs[f"m{k}b0"], inputs[f"m{k}b1"])] for k in range(E)]
    got = [int(x) for x in manhattan_distance(np.array(pts))]
    exp = [abs(a[0] - b[0]) + abs(a[1] - b[1]) for a, b in pts]
    if got != exp or int(manhattan_distance(np.array(pts[0]))) != exp[0]:
        return f"manhattan_distance-wrong | {pts}: got {got} expected {exp}"
    return None


def _run_lattice_utils(job):
    """no symbolic input beyond n: concrete evaluation against the oracle's edge set"""
    from maze_dataset.utils import lattice_connection_array, lattice_max_degrees

    n = job["n"]

    def run(ctx, pinned=None):
        lat = Lattice(n, n)
        arr = lattice_connection_array(n)
        ents = [tuple(tuple(int(x) for x in p) for p in e) for e in arr]
        exp = {lat.ends(k) for k in lat.edge_idx}
        obs = [("lattice_connection_array lists every lattice edge once, smaller-sum coord first",
                z3.BoolVal(len(ents) == 2 * n * (n - 1) and set(ents) == exp and len(set(ents)) == len(ents)))]
        md = lattice_max_degrees(n)
        ok = all(int(md[i, j]) == len(lat.adj((i, j))) for i, j in lat.cells) if n > 1 else True
        obs.append(("lattice_max_degrees == number of lattice neighbours", z3.BoolVal(ok and md.shape == (n, n))))
        return obs

    return run


def _replay_lattice_utils(job, inputs, notes):
    from maze_dataset.utils import lattice_connection_array, lattice_max_degrees

    n = job["n"]
    lat = Lattice(n, n)
    ents = [tuple(tuple(int(x) for x in p) for p in e) for e in lattice_connection_array(n)]
    if len(ents) != 2 * n * (n - 1) or set(ents) != {lat.ends(k) for k in lat.edge_idx} or len(set(ents)) != len(ents):
        return f"lattice_connection_array-wrong | n={n}: {ents}"
    md = lattice_max_degrees(n)
    if n > 1 and any(int(md[i, j]) != len(lat.adj((i, j))) for i, j in lat.cells):
        return f"lattice_max_degrees-wrong | n={n}: {md.tolist()}"
    return None


def _run_get_nodes(job):
    from maze_dataset.maze.lattice_maze import LatticeMaze

    r, c = job["r"], job["c"]

    def run(ctx, pinned=None):
        cl, lat = sym_connection_list(r, c)
        nodes = LatticeMaze(connection_list=cl).get_nodes()
        got = [tuple(int(x) for x in row) for row in nodes]
        return [("get_nodes lists every cell once in row-major order", z3.BoolVal(got == lat.cells))]

    return run


def _replay_get_nodes(job, inputs, notes):
    from maze_dataset.maze.lattice_maze import LatticeMaze

    r, c = job["r"], job["c"]
    got = [tuple(int(x) for x in row) for row in LatticeMaze(connection_list=np.zeros((2, r, c), dtype=bool)).get_nodes()]
    if got != [(i, j) for i in range(r) for j in range(c)]:
        return f"get_nodes-wrong | {r}x{c}: {got}"
    return None


# --------------------------------------------------------------------------------- forking points
def _simple_paths(r, c, maxlen, seed, count):
    """seeded sample of simple lattice paths (as cell lists) of 1..maxlen cells"""
    rng = np.random.default_rng(seed)
    out = []
    tries = 0
    while len(out) < count and tries < 2000:
        tries += 1
        L = int(rng.integers(1, maxlen + 1))
        p = [(int(rng.integers(r)), int(rng.integers(c)))]
        while len(p) < L:
            u = p[-1]
            nb = [v for v in ((u[0] + 1, u[1]), (u[0], u[1] + 1), (u[0] - 1, u[1]), (u[0], u[1] - 1))
                  if 0 <= v[0] < r and 0 <= v[1] < c and v not in p]
            if not nb:
                break
            p.append(nb[int(rng.integers(len(nb)))])
        if p not in out:
            out.append(p)
    return out


def _run_forks(job):
    from maze_dataset.maze.lattice_maze import SolvedMaze

    r, c, sol, aie = job["r"], job["c"], [tuple(p) for p in job["sol"]], job["always"]

    def run(ctx, pinned=None):
        cl, lat = sym_connection_list(r, c)
        for a, b in zip(sol, sol[1:]):  # the solution follows connections
            ctx.solver.add(lat.bit[lat.edge_between(a, b)])
        if pinned:
            pin(pinned)
        m = SolvedMaze(connection_list=cl, solution=np.array(sol))
        idxs, coords = m.get_solution_forking_points(always_include_endpoints=aie)
        idxs = [int(i) for i in idxs]
        got_coords = py_path(coords) if len(idxs) else []
        fidx, fcoords = m.get_solution_path_following_points()
        fidx = [int(i) for i in fidx]
        got_f = py_path(fcoords) if len(fidx) else []
        ctx.notes["sig"] = [idxs, [list(x) for x in got_coords]]
        n = len(sol)
        obs = [("fork coords are the solution cells at the fork indices", z3.BoolVal(got_coords == [sol[i] for i in idxs])),
               ("indices strictly increasing", z3.BoolVal(idxs == sorted(set(idxs))))]
        conds = []
        for i, cell in enumerate(sol):
            endpoint = i == 0 or i == n - 1
            thr = 1 if endpoint else 2
            is_fork = lat.degree(cell) > thr
            if endpoint and aie:
                is_fork = z3.BoolVal(True)
            conds.append(z3.BoolVal(i in idxs) == is_fork)
        obs.append(("index listed <=> more than one onward choice (or endpoint when requested)", z3.And(*conds)))
        if not aie:
            obs.append(("path-following points are exactly the complement",
                        z3.BoolVal(sorted(idxs + fidx) == list(range(n)) and not set(idxs) & set(fidx) and got_f == [sol[i] for i in fidx])))
        # whatever was asked before on this maze object: following points and a later default fork query obey the rule
        rule = [lat.degree(cell) > (1 if i in (0, n - 1) else 2) for i, cell in enumerate(sol)]
        obs.append(("path-following points are the cells without more than one onward choice (also after an endpoint-including fork query)",
                    z3.And(z3.BoolVal(got_f == [sol[i] for i in fidx]), *[z3.BoolVal(i in fidx) == z3.Not(rule[i]) for i in range(n)])))
        idx2, _c2 = m.get_solution_forking_points()
        idx2 = [int(i) for i in idx2]
        obs.append(("a later default fork query on the same object lists exactly the cells with more than one onward choice",
                    z3.And(*[z3.BoolVal(i in idx2) == rule[i] for i in range(n)])))
        return obs

    return run


def _replay_forks(job, inputs, notes):
    from maze_dataset.maze.lattice_maze import SolvedMaze

    r, c, sol, aie = job["r"], job["c"], [tuple(p) for p in job["sol"]], job["always"]
    cl = conn_from_cex(inputs, r, c)
    m = SolvedMaze(connection_list=cl, solution=np.array(sol))
    idxs, coords = m.get_solution_forking_points(always_include_endpoints=aie)
    deg = _real_degrees(cl)
    n = len(sol)
    exp = [i for i, cell in enumerate(sol)
           if deg[cell[0]][cell[1]] > (1 if i in (0, n - 1) else 2) or (aie and i in (0, n - 1))]
    if [int(i) for i in idxs] != exp or [tuple(int(x) for x in row) for row in coords] != [sol[i] for i in exp]:
        return f"forking_points-wrong | solution {sol} always={aie}: got {list(idxs)} expected {exp}, connection_list={cl.astype(int).tolist()}"
    fidx, fcoords = m.get_solution_path_following_points()
    exp0 = [i for i, cell in enumerate(sol) if deg[cell[0]][cell[1]] > (1 if i in (0, n - 1) else 2)]
    if sorted([int(i) for i in fidx] + exp0) != list(range(n)) or [tuple(int(x) for x in row) for row in fcoords] != [sol[int(i)] for i in fidx]:
        return f"path_following_points-wrong | solution {sol}: following {list(fidx)}, forks {exp0}"
    idx2, _ = m.get_solution_forking_points()
    if [int(i) for i in idx2] != exp0:
        return f"forking_points-wrong | solution {sol}: a default query after one with always_include_endpoints={aie} on the same object gives {list(idx2)} expected {exp0}, connection_list={cl.astype(int).tolist()}"
    return None


def _sig_forks(job, inputs):
    from maze_dataset.maze.lattice_maze import SolvedMaze

    cl = conn_from_cex(inputs, job["r"], job["c"])
    m = SolvedMaze(connection_list=cl, solution=np.array([tuple(p) for p in job["sol"]]))
    idxs, coords = m.get_solution_forking_points(always_include_endpoints=job["always"])
    return [[int(i) for i in idxs], [[int(x) for x in row] for row in coords]]


def _pinned_forks(job, seed):
    r, c = job["r"], job["c"]
    rng = np.random.default_rng(seed * 29 + r + len(job["sol"]))
    lat = Lattice(r, c)
    out = []
    for _ in range(2):
        d = _rand_bits(rng, r, c)
        for a, b in zip(job["sol"], job["sol"][1:]):
            k = lat.edge_between(tuple(a), tuple(b))
            d[f"c_{k[0]}_{k[1]}_{k[2]}"] = True
        out.append(d)
    return out


# ------------------------------------------------------------------------------------------ jobs
def jobs(tier, seed):
    q = tier == "quick"
    out = []
    for r, c in ([(1, 2), (2, 1), (2, 2), (2, 3), (3, 2), (3, 3)] + ([(3, 4), (4, 4)] if q else [(3, 4), (4, 3), (4, 4), (5, 5), (6, 6), (2, 6)])):
        out.append(dict(h="nodes_connected", r=r, c=c))
    for r, c in ([(2, 2), (2, 3), (3, 3)] if q else [(2, 2), (2, 3), (3, 2), (3, 3), (3, 4), (4, 4)]):
        for L in range(0, 4 if q else 5):
            if L >= 3 and r * c > 9:
                continue
            for eiv in ((False, True) if L == 0 else (False,)):
                out.append(dict(h="is_valid_path", r=r, c=c, L=L, empty_is_valid=eiv))
    for r, c in ([(1, 1), (1, 4), (2, 2), (3, 3), (3, 5), (5, 3), (8, 8)] if q else [(1, 1), (1, 4), (4, 1), (2, 2), (3, 3), (3, 5), (5, 3), (8, 8), (12, 12), (7, 13), (15, 15)]):
        out.append(dict(h="coord_degrees", r=r, c=c))
    for r, c in ([(2, 2), (2, 3), (3, 2), (4, 1), (3, 3)] if q else [(1, 3), (2, 2), (2, 3), (3, 2), (4, 1), (5, 2), (3, 3), (3, 4), (4, 3), (4, 4)]):
        for cell in itertools.product(range(r), range(c)):
            out.append(dict(h="neighbors", r=r, c=c, cell=list(cell)))
    # larger and oblong grids: corners, edge midpoints, interior (a neighbour query reads only the four connections around its cell)
    for r, c in ([(5, 9), (9, 5), (12, 12)] if q else [(5, 9), (9, 5), (12, 12), (2, 15), (15, 2), (15, 15)]):
        for cell in sorted({(0, 0), (0, c - 1), (r - 1, 0), (r - 1, c - 1), (r // 2, c // 2), (0, c // 2), (r - 1, c // 2), (r // 2, 0), (r // 2, c - 1), (min(r, c) - 1, min(r, c) - 1),
                            (min(r - 1, c), min(c - 1, r))}):
            if 0 <= cell[0] < r and 0 <= cell[1] < c:
                out.append(dict(h="neighbors", r=r, c=c, cell=list(cell)))
    for r, c in ([(2, 2), (2, 3), (3, 2), (3, 3)] if q else [(2, 2), (2, 3), (3, 2), (4, 2), (3, 3), (2, 5)]):
        cells = list(itertools.product(range(r), range(c)))
        if q and (r, c) == (3, 3):
            cells = [(0, 0), (1, 1), (2, 1)]
        for cell in cells:
            out.append(dict(h="component", r=r, c=c, cell=list(cell)))
    if not q:
        # 3x4: all 2^17 mazes from four start cells, split over 16 instances each by four bits around the centre (a single instance per cell exceeded its budget under load)
        for cell in [(0, 0), (1, 1), (2, 3), (1, 3)]:
            for vals in itertools.product([False, True], repeat=4):
                out.append(dict(h="component", r=3, c=4, cell=list(cell), fix=dict(zip(["c_0_0_1", "c_1_1_1", "c_0_1_2", "c_1_1_0"], vals)), max_seconds=3300,
                                label=f"component:3x4:{cell}:" + "".join("1" if v else "0" for v in vals)))
    for r, c in [(1, 1), (2, 2), (2, 3), (3, 2)] + ([] if q else [(3, 3)]):
        for sh0, sh1 in [(False, False), (True, True), (False, True), (True, False)]:
            if (r, c) == (3, 3) and sh1:
                continue
            out.append(dict(h="adj_list", r=r, c=c, shuffle_d0=sh0, shuffle_d1=sh1, max_seconds=3000))
    for n, E in ([(2, 1), (2, 2), (3, 2)] if q else [(2, 1), (2, 2), (3, 2), (3, 3), (4, 2)]):
        out.append(dict(h="from_adj_list", n=n, E=E))
    for n in (2, 3) if q else (2, 3, 4, 5):
        out.append(dict(h="from_adj_list_invalid", n=n))
    for n in (2,) if q else (2, 3):
        out.append(dict(h="adj_roundtrip", n=n, max_seconds=3000))
    for n, E in ([(2, 2), (3, 2), (4, 1)] if q else [(2, 2), (3, 3), (4, 2), (5, 2), (6, 1)]):
        out.append(dict(h="is_connection", n=n, E=E))
    out.append(dict(h="manhattan", E=2 if q else 3))
    for n in range(1, 7 if q else 9):
        out.append(dict(h="lattice_utils", n=n))
    for r, c in [(1, 1), (2, 3), (3, 2), (4, 4)] + ([] if q else [(1, 5), (6, 2), (8, 8)]):
        out.append(dict(h="get_nodes", r=r, c=c))
    for r, c in ([(2, 2), (3, 3)] if q else [(2, 2), (2, 3), (3, 3), (3, 4)]):
        for sol in _simple_paths(r, c, 5 if (r, c) != (2, 2) else 4, seed + r * 10 + c, 4 if q else 12):
            for aie in (False, True):
                out.append(dict(h="forks", r=r, c=c, sol=[list(p) for p in sol], always=aie))
    out.append(dict(_alias.ALIAS_JOB))  # results must not alias library state, arguments or each other (props/alias_common.py)
    out[0]["twin"] = True
    return out


HARNESSES = {
    "nodes_connected": dict(run=_run_nodes_connected, replay=_replay_nodes_connected, real_sig=_sig_nodes_connected, pinned=_pinned_nodes_connected),
    "is_valid_path": dict(run=_run_is_valid_path, replay=_replay_is_valid_path, real_sig=_sig_is_valid_path, pinned=_pinned_is_valid_path),
    "coord_degrees": dict(run=_run_coord_degrees, replay=_replay_coord_degrees, real_sig=_sig_coord_degrees, pinned=_pinned_bits),
    "neighbors": dict(run=_run_neighbors, replay=_replay_neighbors, real_sig=_sig_neighbors, pinned=_pinned_bits),
    "component": dict(run=_run_component, replay=_replay_component, real_sig=_sig_component, pinned=_pinned_bits),
    "adj_list": dict(run=_run_adj_list_wrapped, replay=_replay_adj_list, real_sig=_sig_adj_list, pinned=_pinned_adj),
    "from_adj_list": dict(run=_run_from_adj_list, replay=_replay_from_adj_list),
    "from_adj_list_invalid": dict(run=_run_from_adj_list_invalid, replay=_replay_from_adj_list_invalid),
    "adj_roundtrip": dict(run=_run_adj_roundtrip, replay=_replay_adj_roundtrip),
    "is_connection": dict(run=_run_is_connection, replay=_replay_is_connection, real_sig=_sig_is_connection, pinned=_pinned_is_connection),
    "manhattan": dict(run=_run_manhattan, replay=_replay_manhattan),
    "lattice_utils": dict(run=_run_lattice_utils, replay=_replay_lattice_utils),
    "get_nodes": dict(run=_run_get_nodes, replay=_replay_get_nodes),
    "forks": dict(run=_run_forks, replay=_replay_forks, real_sig=_sig_forks, pinned=_pinned_forks),
}
HARNESSES["alias"] = _alias.alias_harness("C13")

META = dict(
    functions=["LatticeMaze.nodes_connected", "LatticeMaze.is_valid_path", "LatticeMaze.coord_degrees", "LatticeMaze.get_coord_neighbors",
               "LatticeMaze.gen_connected_component_from", "LatticeMaze.get_nodes", "LatticeMaze.as_adj_list",
               "token_utils.connection_list_to_adj_list", "LatticeMaze.from_adj_list", "token_utils.is_connection",
               "utils.manhattan_distance", "utils.lattice_connection_array", "utils.lattice_max_degrees",
               "SolvedMaze.get_solution_forking_points", "SolvedMaze.get_solution_path_following_points"],
    bounds=dict(
        quick="all bits symbolic; nodes_connected with symbolic cell pair on grids up to 4x4; is_valid_path with symbolic paths of 0..3 cells "
              "(coordinates -1..size, so out-of-bounds included) on <=3x3; coord_degrees single path up to 8x8 incl. oblong; neighbours/"
              "components from concrete cells on <=3x3; adjacency list on <=2x3 with symbolic flips and permutations; from_adj_list with <=2 "
              "symbolic edges on n<=3; is_connection with symbolic edges n<=4; forking points around a seeded sample of solutions on 2x2, 3x3",
        thorough="as quick with grids up to 6x6 (nodes_connected), 15x15 (coord_degrees), 3x4 (components), 3x3 adjacency (unshuffled flips), "
                 "from_adj_list with 3 edges / n<=4, paths of 4 cells, 12 sampled solutions per grid",
    ),
    degenerate=dict(adj_list="branches on every connection bit (paths == mazes x flips): exhaustive enumeration within the bound",
                    adj_roundtrip="branches on every bit", lattice_utils="no symbolic input (concrete evaluation)", get_nodes="no symbolic input"),
    stubs=stubs_description() + ["np.random.rand / np.random.shuffle in token_utils -> symbolic draws (flip per edge, permutation index)"],
    outside=["grids beyond the stated sizes", "shuffles of more than 3 entries explore identity/reversal/rotation only",
             "from_adj_list on entries that are not lattice edges but share one coordinate (accepted by the code, not covered by the property)"],
    assumptions=["representation invariant on input mazes", "manhattan_distance: distances <= 127 (int8 result)"],
)

META.setdefault("degenerate", {})["alias"] = _alias.ALIAS_META
