"""C18 - configurations round-trip exactly and have stable, discriminating identities."""

from __future__ import annotations

import json
import os
import subprocess
import sys

import numpy as np
import z3

from symx.core import Inconclusive, SBool, SInt, cur, fresh_bool, fresh_int, is_sym, zb, zi

from props import alias_common as _alias

ID = "C18"
GENS = ["gen_dfs", "gen_wilson", "gen_percolation", "gen_dfs_percolation", "gen_prim"]

KW_SHAPES = ["none", "acc", "acc_depth", "p", "start"]
EP_SHAPES = ["none", "flags", "allowed", "allowed_both", "explicit_none", "empty_list"]
FILTER_SHAPES = ["none", "one_kw", "two", "args"]


def _noop_repro(seed):
    return None


def _build(ctx, tag, gen, kw_shape, ep_shape, f_shape, sym=True):
    """config whose int / bool / coordinate fields are symbolic; returns (cfg, dict field -> z3 term / python value)"""
    from maze_dataset import MazeDatasetConfig
    from maze_dataset.generation.generators import GENERATORS_MAP

    t = {}

    def I(name, lo, hi):
        v = fresh_int(f"{tag}{name}", lo, hi)
        t[name] = ctx.inputs[f"{tag}{name}"]
        return v

    def B(name):
        v = fresh_bool(f"{tag}{name}")
        t[name] = ctx.inputs[f"{tag}{name}"]
        return v

    grid_n, n_mazes, seed = I("grid_n", 1, 64), I("n_mazes", 0, 10 ** 6), I("seed", 0, 2 ** 31 - 1)
    slmin, slmax = I("seq_len_min", 0, 2048), I("seq_len_max", 0, 2048)
    ctx.solver.add(t["seq_len_min"] <= t["seq_len_max"])
    kw = {}
    if kw_shape in ("acc", "acc_depth"):
        kw["accessible_cells"] = I("acc", 0, 4096)
    if kw_shape == "acc_depth":
        kw["max_tree_depth"] = I("depth", 0, 128)
        kw["do_forks"] = B("forks")
    if kw_shape == "p":
        kw["p"] = 0.25
    if kw_shape == "start":
        kw["start_coord"] = [I("sc0", 0, 63), I("sc1", 0, 63)]
    ep = {}
    if ep_shape == "flags":
        ep = dict(deadend_start=B("ds"), deadend_end=B("de"), endpoints_not_equal=B("ne"))
    if ep_shape in ("allowed", "allowed_both"):
        ep["allowed_start"] = [(I("as0", 0, 63), I("as1", 0, 63)), (I("as2", 0, 63), I("as3", 0, 63))]
    if ep_shape == "allowed_both":
        ep["allowed_end"] = [(I("ae0", 0, 63), I("ae1", 0, 63))]
        ep["endpoints_not_equal"] = B("ne")
        ep["except_when_invalid"] = True
    if ep_shape == "explicit_none":  # options spelled out with their default None / False values: the keys must survive
        ep = dict(allowed_start=[(I("as0", 0, 63), I("as1", 0, 63))], allowed_end=None, deadend_start=B("ds"), deadend_end=False, endpoints_not_equal=False)
    if ep_shape == "empty_list":  # an empty coordinate list ("no position allowed") is not the same as None ("no restriction")
        ep = dict(allowed_start=[], allowed_end=[(I("ae0", 0, 63), I("ae1", 0, 63))], deadend_end=B("de"))
    filters = []
    if f_shape in ("one_kw", "two"):
        filters.append(dict(name="path_length", args=(), kwargs=dict(min_length=I("ml", 0, 100))))
    if f_shape == "two":
        filters.append(dict(name="remove_duplicates", args=(), kwargs=dict(minimum_difference_connection_list=I("t1", 0, 10), minimum_difference_solution=None)))
    if f_shape == "args":
        filters.append(dict(name="truncate_count", args=(I("mc", 0, 1000),), kwargs={}))
        filters.append(dict(name="custom_coords", args=((I("fc0", 0, 9), I("fc1", 0, 9)),), kwargs={}))
    cfg = MazeDatasetConfig(name=f"cfg{tag}", grid_n=grid_n, n_mazes=n_mazes, seed=seed, seq_len_min=slmin, seq_len_max=slmax,
                            maze_ctor=GENERATORS_MAP[gen], maze_ctor_kwargs=kw, endpoint_kwargs=ep, applied_filters=filters)
    return cfg, t


def _eq_struct(a, b):
    """z3 term: two nested python structures of symbolic / concrete leaves are equal (same shape, same leaves)"""
    if isinstance(a, dict) and isinstance(b, dict):
        if set(a) != set(b):
            return z3.BoolVal(False)
        return z3.And(*[_eq_struct(a[k], b[k]) for k in a]) if a else z3.BoolVal(True)
    if isinstance(a, (list, tuple)) and isinstance(b, (list, tuple)):
        if len(a) != len(b):
            return z3.BoolVal(False)
        return z3.And(*[_eq_struct(x, y) for x, y in zip(a, b)]) if a else z3.BoolVal(True)
    if is_sym(a) or is_sym(b):
        ka = "b" if (type(a) is SBool or isinstance(a, bool)) else "i"
        kb = "b" if (type(b) is SBool or isinstance(b, bool)) else "i"
        if ka != kb:
            return z3.BoolVal(False)
        return (zb(a) == zb(b)) if ka == "b" else (zi(a) == zi(b))
    if isinstance(a, (dict, list, tuple)) or isinstance(b, (dict, list, tuple)):
        return z3.BoolVal(False)
    return z3.BoolVal(type(a) is type(b) and a == b) if not (isinstance(a, (int, float)) and isinstance(b, (int, float))) else z3.BoolVal(a == b and isinstance(a, bool) == isinstance(b, bool))


def _fields(cfg):
    return dict(name=cfg.name, grid_n=cfg.grid_n, n_mazes=cfg.n_mazes, seed=cfg.seed, seq_len_min=cfg.seq_len_min, seq_len_max=cfg.seq_len_max,
                maze_ctor=cfg.maze_ctor.__name__, maze_ctor_kwargs=cfg.maze_ctor_kwargs, endpoint_kwargs=cfg.endpoint_kwargs,
                applied_filters=[dict(name=f["name"], args=tuple(f.get("args", ())), kwargs=dict(f.get("kwargs", {}))) for f in cfg.applied_filters])


def _tuples_ok(cfg):
    ek = cfg.endpoint_kwargs
    ok = all(isinstance(x, tuple) for k in ("allowed_start", "allowed_end") if ek.get(k) is not None for x in ek[k])
    return ok and all(isinstance(f.get("args", ()), tuple) for f in cfg.applied_filters)


def _patch_cfg():
    return dict(np_modules=[], stub_ascii=False, extra={"maze_dataset.dataset.dataset": {"set_reproducibility": _noop_repro}})


# ----------------------------------------------------------------------------------------- round trip
def _run_roundtrip(job):
    def run(ctx, pinned=None):
        from maze_dataset import MazeDatasetConfig

        cfg, t = _build(ctx, "a", job["gen"], job["kw"], job["ep"], job["f"])
        before = _fields(cfg)
        ser = cfg.serialize()
        loaded = MazeDatasetConfig.load(ser)
        # what JSON text does to the structure (tuples become lists, keys strings) with the leaves kept symbolic
        via_json = MazeDatasetConfig.load(_jsonify(ser))
        obs = [("through JSON structure: every field equal", _eq_struct(_fields(via_json), before)),
               ("through JSON structure: coordinate lists and filter args restored as tuples", z3.BoolVal(_tuples_ok(via_json))),
               ("through JSON structure: same generator function", z3.BoolVal(via_json.maze_ctor is cfg.maze_ctor)),
               ("same generator function", z3.BoolVal(loaded.maze_ctor is cfg.maze_ctor)),
               ("every field equal after load(serialize(cfg))", _eq_struct(_fields(loaded), before)),
               ("coordinate lists and filter args restored as tuples", z3.BoolVal(_tuples_ok(loaded))),
               ("serialize does not modify the configuration", _eq_struct(_fields(cfg), before))]
        try:
            eq = loaded == cfg
            obs.append(("loaded configuration compares equal to the original", zb(eq) if is_sym(eq) else z3.BoolVal(bool(eq))))
        except Inconclusive:
            raise
        except Exception as e:
            obs.append((f"comparing loaded and original never raises (got {type(e).__name__})", z3.BoolVal(False)))
        # second generation: serialize(load(serialize)) is a fixed point
        obs.append(("serialize(load(serialize(cfg))) == serialize(cfg)", _eq_struct(_strip(loaded.serialize()), _strip(ser))))
        return obs

    return run


def _jsonify(x):
    if isinstance(x, dict):
        return {str(k): _jsonify(v) for k, v in x.items()}
    if isinstance(x, (list, tuple)):
        return [_jsonify(v) for v in x]
    return x


def _strip(ser):
    d = dict(ser)
    if isinstance(d.get("maze_ctor"), dict):
        d["maze_ctor"] = d["maze_ctor"]["__name__"]
    return d


def _concrete_cfg(job, inputs, tag):
    from maze_dataset import MazeDatasetConfig
    from maze_dataset.generation.generators import GENERATORS_MAP

    g = lambda n, d=0: inputs.get(f"{tag}{n}", d)
    kw_shape, ep_shape, f_shape = job["kw"], job["ep"], job["f"]
    kw = {}
    if kw_shape in ("acc", "acc_depth"):
        kw["accessible_cells"] = g("acc")
    if kw_shape == "acc_depth":
        kw["max_tree_depth"] = g("depth")
        kw["do_forks"] = bool(g("forks", False))
    if kw_shape == "p":
        kw["p"] = 0.25
    if kw_shape == "start":
        kw["start_coord"] = [g("sc0"), g("sc1")]
    ep = {}
    if ep_shape == "flags":
        ep = dict(deadend_start=bool(g("ds", False)), deadend_end=bool(g("de", False)), endpoints_not_equal=bool(g("ne", False)))
    if ep_shape in ("allowed", "allowed_both"):
        ep["allowed_start"] = [(g("as0"), g("as1")), (g("as2"), g("as3"))]
    if ep_shape == "allowed_both":
        ep["allowed_end"] = [(g("ae0"), g("ae1"))]
        ep["endpoints_not_equal"] = bool(g("ne", False))
        ep["except_when_invalid"] = True
    if ep_shape == "explicit_none":
        ep = dict(allowed_start=[(g("as0"), g("as1"))], allowed_end=None, deadend_start=bool(g("ds", False)), deadend_end=False, endpoints_not_equal=False)
    if ep_shape == "empty_list":
        ep = dict(allowed_start=[], allowed_end=[(g("ae0"), g("ae1"))], deadend_end=bool(g("de", False)))
    filters = []
    if f_shape in ("one_kw", "two"):
        filters.append(dict(name="path_length", args=(), kwargs=dict(min_length=g("ml"))))
    if f_shape == "two":
        filters.append(dict(name="remove_duplicates", args=(), kwargs=dict(minimum_difference_connection_list=g("t1"), minimum_difference_solution=None)))
    if f_shape == "args":
        filters.append(dict(name="truncate_count", args=(g("mc"),), kwargs={}))
        filters.append(dict(name="custom_coords", args=((g("fc0"), g("fc1")),), kwargs={}))
    return MazeDatasetConfig(name=f"cfg{tag}", grid_n=g("grid_n", 1), n_mazes=g("n_mazes"), seed=g("seed"), seq_len_min=g("seq_len_min"), seq_len_max=max(g("seq_len_max"), g("seq_len_min")),
                             maze_ctor=GENERATORS_MAP[job["gen"] if tag == "a" else job.get("gen2", job["gen"])], maze_ctor_kwargs=kw, endpoint_kwargs=ep, applied_filters=filters)


def _plain(x):
    if isinstance(x, dict):
        return {k: _plain(v) for k, v in x.items()}
    if isinstance(x, (list, tuple)):
        return [_plain(v) for v in x]
    return x


def _replay_roundtrip(job, inputs, notes):
    from maze_dataset import MazeDatasetConfig

    cfg = _concrete_cfg(job, inputs, "a")
    before = json.dumps(_plain(_fields(cfg)), sort_keys=True)
    try:
        ser = cfg.serialize()
        loaded = MazeDatasetConfig.load(json.loads(json.dumps(ser)))  # also through JSON text
        loaded2 = MazeDatasetConfig.load(ser)
    except Exception as e:
        return f"cfg-roundtrip-raises | {job}: {type(e).__name__}: {str(e)[:120]}"
    for nm, l in (("through JSON text", loaded), ("in memory", loaded2)):
        # JSON text has no tuples: a coordinate nested inside a recorded filter's positional arguments (the made-up
        # `custom_coords` shape; no registered filter takes one) comes back as a list, so for that shape equality through
        # JSON text is judged on the normalised structure, exactly as the symbolic obligation does
        strict_eq = not (nm == "through JSON text" and job["f"] == "args")
        if json.dumps(_plain(_fields(l)), sort_keys=True) != before or l.maze_ctor is not cfg.maze_ctor or (strict_eq and not (l == cfg)):
            return f"cfg-roundtrip-differs | {nm}: {_plain(_fields(l))} vs {_plain(_fields(cfg))}"
        if not _tuples_ok(l):
            return f"cfg-roundtrip-tuples | {nm}: coordinate lists / filter args not restored as tuples: {l.endpoint_kwargs} {l.applied_filters}"
    if json.dumps(_plain(_fields(cfg)), sort_keys=True) != before:
        return "cfg-serialize-mutates | serialize() modified the configuration"
    return None


# -------------------------------------------------------------------------------------- discrimination
def _run_discriminate(job):
    def run(ctx, pinned=None):
        c1, t1 = _build(ctx, "a", job["gen"], job["kw"], job["ep"], job["f"])
        c2, t2 = _build(ctx, "b", job.get("gen2", job["gen"]), job["kw"], job["ep"], job["f"])
        c2.name = c1.name if job.get("same_name", True) else c2.name
        s1, s2 = _strip(c1.serialize()), _strip(c2.serialize())
        same_ser = s1 == s2  # plain Python comparison of the serialized content (forks on symbolic leaves)
        same_fields = _eq_struct(_fields(c1), _fields(c2))
        return [("serialized content (the hash input) is equal exactly when name, grid size, maze count, generator, generator arguments, endpoint options, "
                 "seed and recorded filters are equal", z3.BoolVal(bool(same_ser)) == same_fields)]

    return run


def _replay_discriminate(job, inputs, notes):
    c1, c2 = _concrete_cfg(job, inputs, "a"), _concrete_cfg(job, inputs, "b")
    if job.get("same_name", True):
        c2.name = c1.name
    same_fields = json.dumps(_plain(_fields(c1)), sort_keys=True) == json.dumps(_plain(_fields(c2)), sort_keys=True)
    j1, j2 = json.dumps(c1.serialize(), sort_keys=True), json.dumps(c2.serialize(), sort_keys=True)
    if (j1 == j2) != same_fields or (c1.stable_hash_cfg() == c2.stable_hash_cfg()) != same_fields and not same_fields is False:
        return f"cfg-identity-not-discriminating | fields equal: {same_fields}, serialized equal: {j1 == j2}; {_plain(_fields(c1))} vs {_plain(_fields(c2))}"
    if same_fields and c1.stable_hash_cfg() != c2.stable_hash_cfg():
        return "cfg-hash-unstable | equal configurations hash differently"
    return None


# -------------------------------------------------------------------------------- identity (concrete forks)
def _identity_problem(job):
    import copy

    from maze_dataset import MazeDatasetConfig
    from maze_dataset.generation.generators import GENERATORS_MAP

    base = dict(name=job["name"], grid_n=job["grid_n"], n_mazes=job["n_mazes"], seed=job["seed"], maze_ctor=GENERATORS_MAP[job["gen"]],
                maze_ctor_kwargs=dict(job["kwargs"]), endpoint_kwargs={k: ([tuple(x) for x in v] if isinstance(v, list) else v) for k, v in job["endpoint"].items()},
                applied_filters=[dict(name=f[0], args=tuple(f[1]), kwargs=dict(f[2])) for f in job["filters"]])
    cfg = MazeDatasetConfig(**copy.deepcopy(base))
    h0 = cfg.stable_hash_cfg()
    fn = cfg.to_fname()
    import re

    from muutils.misc import sanitize_fname, shorten_numerical_to_str

    want = sanitize_fname(f"{job['name']}-g{job['grid_n']}-n{shorten_numerical_to_str(job['n_mazes'])}-a_{job['gen'].removeprefix('gen_')}-h{h0 % 10 ** 5}")
    if fn != want:
        return f"cfg-fname-form | to_fname()={fn!r}, documented form gives {want!r}"
    if MazeDatasetConfig(**copy.deepcopy(base)).stable_hash_cfg() != h0:
        return "cfg-hash-unstable | the same configuration built twice hashes differently"
    import hashlib

    if h0 != int.from_bytes(hashlib.sha256(json.dumps(cfg.serialize()).encode()).digest(), "big"):
        return "cfg-hash-not-content | the hash is not a function of the serialized content alone"
    # every single-field variation must change the hash input and the hash
    variations = {
        "name": dict(name=job["name"] + "x"), "grid_n": dict(grid_n=job["grid_n"] + 1), "n_mazes": dict(n_mazes=job["n_mazes"] + 1), "seed": dict(seed=job["seed"] + 1),
        "maze_ctor": dict(maze_ctor=GENERATORS_MAP["gen_wilson" if job["gen"] != "gen_wilson" else "gen_dfs"], maze_ctor_kwargs={}),
        "maze_ctor_kwargs": dict(maze_ctor_kwargs={**job["kwargs"], "extra_flag": True}) if job["gen"] != "gen_wilson" else None,
        "endpoint_kwargs": dict(endpoint_kwargs={**base["endpoint_kwargs"], "deadend_end": not base["endpoint_kwargs"].get("deadend_end", False)}),
        "applied_filters": dict(applied_filters=base["applied_filters"] + [dict(name="path_length", args=(), kwargs=dict(min_length=3))]),
    }
    # an int and the equal float are different generator arguments (gen_dfs reads a float as a proportion of the cells)
    for k_, v_ in job["kwargs"].items():
        if isinstance(v_, (int, float)) and not isinstance(v_, bool) and float(v_) == int(v_):
            other = float(v_) if isinstance(v_, int) else int(v_)
            variations[f"maze_ctor_kwargs[{k_}] as {type(other).__name__}"] = dict(maze_ctor_kwargs={**job["kwargs"], k_: other})
            break
    base_mc = dict(base)
    for field, ch in variations.items():
        if ch is None:
            continue
        b2 = copy.deepcopy(base)
        b2.update(copy.deepcopy(ch))
        if field == "maze_ctor":
            b2["maze_ctor_kwargs"] = {}
            ref = MazeDatasetConfig(**{**copy.deepcopy(base), "maze_ctor_kwargs": {}})
            if MazeDatasetConfig(**b2).stable_hash_cfg() == ref.stable_hash_cfg():
                return "cfg-identity-not-discriminating | changing the generator does not change the hash"
            continue
        c2 = MazeDatasetConfig(**b2)
        if c2.stable_hash_cfg() == h0 or json.dumps(c2.serialize()) == json.dumps(cfg.serialize()):
            return f"cfg-identity-not-discriminating | changing {field} does not change the hash / serialized content"
        if field in ("name", "grid_n", "n_mazes") and c2.to_fname() == fn:
            return f"cfg-fname-not-discriminating | changing {field} does not change the file name"
    # in-place edits of mutable fields: hash and file name keep tracking the content
    seqs = [("applied_filters.append", lambda c: c.applied_filters.append(dict(name="path_length", args=(), kwargs=dict(min_length=3)))),
            ("endpoint_kwargs[k]=v", lambda c: c.endpoint_kwargs.__setitem__("deadend_end", not c.endpoint_kwargs.get("deadend_end", False)))]
    if job["gen"] != "gen_wilson":
        seqs.append(("maze_ctor_kwargs[k]=v", lambda c: c.maze_ctor_kwargs.__setitem__("extra_flag", True)))
    for nm, edit in seqs:
        c = MazeDatasetConfig(**copy.deepcopy(base))
        h_before = c.stable_hash_cfg()
        c.to_fname()
        edit(c)
        fresh = MazeDatasetConfig.load(json.loads(json.dumps(c.serialize())))
        if c.stable_hash_cfg() == h_before or c.stable_hash_cfg() != fresh.stable_hash_cfg() or c.to_fname() != fresh.to_fname():
            return f"cfg-hash-stale | after the in-place edit {nm} the hash / file name no longer describe the configuration's content"
    return None


def _run_identity(job):
    def run(ctx, pinned=None):
        p = _identity_problem(job)
        ctx.notes["problem"] = p
        return [("identity of a concrete configuration: hash is content-only, discriminates every field, file name has the documented form", z3.BoolVal(p is None))]

    return run


def _replay_identity(job, inputs, notes):
    return _identity_problem(job)


# ------------------------------------------------------------------------------------ cross process
_CHILD = r'''
import json, sys, warnings
warnings.filterwarnings("ignore")
sys.path.insert(0, sys.argv[1])
from props.c18 import _identity_configs
from maze_dataset import MazeDatasetConfig
out = []
for job in _identity_configs():
    from props.c18 import _cfg_of
    c = _cfg_of(job)
    out.append([json.dumps(c.serialize()), c.stable_hash_cfg(), c.to_fname()])
print("RESULT" + json.dumps(out))
'''


def _cfg_of(job):
    import copy

    from maze_dataset import MazeDatasetConfig
    from maze_dataset.generation.generators import GENERATORS_MAP

    return MazeDatasetConfig(name=job["name"], grid_n=job["grid_n"], n_mazes=job["n_mazes"], seed=job["seed"], maze_ctor=GENERATORS_MAP[job["gen"]],
                             maze_ctor_kwargs=dict(job["kwargs"]), endpoint_kwargs={k: ([tuple(x) for x in v] if isinstance(v, list) else v) for k, v in job["endpoint"].items()},
                             applied_filters=[dict(name=f[0], args=tuple(f[1]), kwargs=dict(f[2])) for f in job["filters"]])


def _identity_configs():
    out = []
    eps = [{}, dict(deadend_start=True, endpoints_not_equal=True, deadend_end=False), dict(allowed_start=[[0, 0], [1, 1]], allowed_end=[[2, 2]], endpoints_not_equal=True, except_when_invalid=True, deadend_start=False)]
    kws = {"gen_dfs": [dict(), dict(accessible_cells=7, max_tree_depth=3, do_forks=False), dict(accessible_cells=1.0, max_tree_depth=2)], "gen_wilson": [dict()],
           "gen_percolation": [dict(p=0.25)], "gen_dfs_percolation": [dict(p=0.5, accessible_cells=5), dict(p=1.0)], "gen_prim": [dict(do_forks=False, start_coord=[0, 1])]}
    fls = [[], [["path_length", [], {"min_length": 3}], ["remove_duplicates", [], {"minimum_difference_connection_list": 2, "minimum_difference_solution": None}]], [["truncate_count", [5], {}]]]
    k = 0
    for gen in GENS:
        for kw in kws[gen]:
            for ep in eps:
                fl = fls[k % 3]
                out.append(dict(h="identity", name=f"id{k}", grid_n=3 + k % 4, n_mazes=[1, 10, 1000, 10 ** 6][k % 4], seed=[0, 42, 7, 2 ** 31 - 1][k % 4], gen=gen, kwargs=kw, endpoint=ep, filters=fl))
                k += 1
    return out


def _crossproc_problem(job):
    verif = os.path.dirname(os.path.dirname(os.path.abspath(__file__)))
    res = []
    for hs in job["hashseeds"]:
        env = dict(os.environ, PYTHONHASHSEED=str(hs))
        extra = [os.environ["VERIF_REPO"]] if os.environ.get("VERIF_REPO") else []
        code = _CHILD if not extra else _CHILD.replace('sys.path.insert(0, sys.argv[1])', 'sys.path.insert(0, sys.argv[1]); sys.path.insert(0, sys.argv[2])')
        p = subprocess.run([sys.executable, "-W", "ignore", "-c", code, verif] + extra, env=env, capture_output=True, text=True, timeout=600)
        line = [l for l in p.stdout.splitlines() if l.startswith("RESULT")]
        if not line:
            raise Inconclusive(f"child interpreter failed: {p.stderr[-400:]}")
        res.append(json.loads(line[0][6:]))
    for i, rows in enumerate(zip(*res)):
        if any(r != rows[0] for r in rows[1:]):
            what = "serialized content" if any(r[0] != rows[0][0] for r in rows) else "hash / file name"
            return f"cfg-identity-process-dependent | configuration #{i}: {what} differs between interpreter processes with PYTHONHASHSEED {job['hashseeds']}"
    return None


def _run_crossproc(job):
    def run(ctx, pinned=None):
        p = _crossproc_problem(job)
        ctx.notes["problem"] = p
        return [("serialized content, hash and file name identical across interpreter processes / hash seeds", z3.BoolVal(p is None))]

    return run


def _replay_crossproc(job, inputs, notes):
    return _crossproc_problem(job)


# ------------------------------------------------------------------------------------------ jobs
def jobs(tier, seed):
    q = tier == "quick"
    out = []
    rng = np.random.default_rng(seed + 18)
    combos = [(g, k, e, f) for g in GENS for k in KW_SHAPES for e in EP_SHAPES for f in FILTER_SHAPES if not (g == "gen_wilson" and k != "none")]
    # every shape value appears with every generator at least once; the rest sampled
    base = []
    for g in GENS:
        for i in range(6):
            k = KW_SHAPES[i % len(KW_SHAPES)] if g != "gen_wilson" else "none"
            base.append((g, k, EP_SHAPES[i % 6], FILTER_SHAPES[(i + 1) % 4]))
    extra = [combos[i] for i in rng.choice(len(combos), size=10 if q else 60, replace=False)]
    for g, k, e, f in dict.fromkeys(base + extra):
        out.append(dict(h="roundtrip", gen=g, kw=k, ep=e, f=f))
    for g, k, e, f in (base[::2] if q else base + extra[:20]):
        out.append(dict(h="discriminate", gen=g, kw=k, ep=e, f=f))
    out.append(dict(h="discriminate", gen="gen_dfs", gen2="gen_prim", kw="acc", ep="none", f="none"))
    out.append(dict(h="discriminate", gen="gen_dfs", kw="none", ep="flags", f="one_kw", same_name=False))
    ids = _identity_configs()
    out += ids if not q else ids[::2]
    out.append(dict(h="crossproc", hashseeds=[1, 2] if q else [0, 1, 2, 12345], max_seconds=3300))
    out.append(dict(_alias.ALIAS_JOB))  # results must not alias library state, arguments or each other (props/alias_common.py)
    out[0]["twin"] = True
    return out


HARNESSES = {
    "roundtrip": dict(run=_run_roundtrip, replay=_replay_roundtrip, patch=_patch_cfg),
    "discriminate": dict(run=_run_discriminate, replay=_replay_discriminate, patch=_patch_cfg),
    "identity": dict(run=_run_identity, replay=_replay_identity, patch=dict(np_modules=[], stub_ascii=False)),
    "crossproc": dict(run=_run_crossproc, replay=_replay_crossproc, patch=dict(np_modules=[], stub_ascii=False)),
}
HARNESSES["alias"] = _alias.alias_harness("C18")

META = dict(
    functions=["MazeDatasetConfig.serialize / load (field serialization and loading lambdas)", "_load_maze_ctor", "dataset._load_applied_filters", "GPTDatasetConfig.__post_init__",
               "MazeDatasetConfig.stable_hash_cfg", "to_fname"],
    bounds=dict(
        quick="grid_n, n_mazes, seed, seq_len_min/max, generator arguments, endpoint flags, coordinates inside allowed_start/allowed_end and inside filter arguments all symbolic "
              "(wide integer ranges); 5 generators x kwargs shapes {none, accessible_cells, +depth/forks, p, start_coord} x endpoint shapes {none, flags, allowed_start, "
              "+allowed_end, options spelled out with explicit None / False, an empty coordinate list} x filter-list shapes {none, one, two, positional args with a coordinate}: 25 covering + 10 sampled shape combinations for the round trip, 15 for "
              "pairwise discrimination; identity (hash content-only, every single-field variation, in-place edits, file-name form) on 12 concrete configurations; "
              "cross-process comparison under 2 PYTHONHASHSEED values",
        thorough="85 shape combinations, 45 discrimination pairs, 24 concrete configurations, 4 hash seeds",
    ),
    degenerate=dict(identity="concrete configurations (json text and sha256 are C code: nothing symbolic survives)", crossproc="concrete, separate interpreter processes"),
    stubs=["muutils set_reproducibility (called by the config constructor) -> no-op in the symbolic harnesses (seeding is the subject of C04)"],
    outside=["collision-freeness of sha256 / of the last five digits", "interpreter versions other than the one installed"],
    assumptions=["json_serialize passes int / bool leaves through unchanged (checked concretely by the replay through real JSON text)"],
)

META.setdefault("degenerate", {})["alias"] = _alias.ALIAS_META
