"""C11 (decision part) - the cache never serves data of another configuration, and an unreadable cache file
is regenerated and re-saved.

What is decided here is the *decision logic* of `GPTDataset.from_config` - the only part of C11 that is Python
control flow.  The file system, the ZANJ reader/writer and the generator are the environment and are replaced by
nondeterministic stubs constrained only by their contract:

* `Path.exists()`  -> a symbolic boolean;
* `cls.read(path)` -> either raises an arbitrary `Exception` (what a missing, empty, truncated or corrupted file
  does - see the stub-contract validation below) or returns a dataset whose configuration is an *arbitrary*
  configuration `B` of the same shape as the requested configuration `A` (all int/bool/coordinate fields symbolic);
* `cls.generate(cfg)` -> an uninterpreted "fresh generation" G(cfg) (a recognisable dataset object built for the
  configuration it was called with);
* `save(path)` -> recorded.

Obligations (for every A, B, exists, read outcome): the dataset read from the file is returned only if B equals A in
every field other than n_mazes (or in the one documented escape hatch: A has no filters and B's only filter is
`collect_generation_meta`); if it equals A it is returned as is (no regeneration, no overwrite); otherwise ValueError.
If the file does not exist or reading raises, G(A) with A's filters applied is returned and saved exactly once under
the requested path, and no exception escapes.

The *stub contract* of `read` is validated against the real reader on every run: a real cache file written by the real
`from_config` is truncated at a stride of byte offsets and corrupted at single bytes; the real `read` must either raise
an `Exception` or return a dataset (i.e. stay within the stub's outcome set), and the real `from_config` on that file
must return the mazes of a fresh generation and leave a loadable file behind.  Those runs are concrete and are counted
as validation traces, not as solver coverage.
"""

from __future__ import annotations

import copy
import json
import shutil
import tempfile
import zipfile

import numpy as np
import z3

from symx.core import Inconclusive, cur, fresh_bool, is_sym, zb
from props import c18

ID = "C11"

EXCS = {
    "FileNotFoundError": FileNotFoundError, "BadZipFile": zipfile.BadZipFile, "EOFError": EOFError, "KeyError": KeyError, "ValueError": ValueError,
    "JSONDecodeError": lambda: json.JSONDecodeError("x", "y", 0), "AssertionError": AssertionError, "OSError": OSError, "TypeError": TypeError,
    "UnicodeDecodeError": lambda: UnicodeDecodeError("utf-8", b"\xff", 0, 1, "bad"), "IndexError": IndexError, "NotImplementedError": NotImplementedError,
    "zlib.error": lambda: __import__("zlib").error("bad"), "AttributeError": AttributeError, "RuntimeError": RuntimeError, "MemoryError": MemoryError,
}


class FakePath:
    """stands in for pathlib.Path inside maze_dataset.dataset.dataset: the file system is an input"""

    env = None

    def __init__(self, p):
        self.p = p.p if isinstance(p, FakePath) else str(p)

    def __truediv__(self, o):
        return FakePath(self.p + "/" + (o.p if isinstance(o, FakePath) else str(o)))

    def exists(self):
        FakePath.env["exists_asked"].append(self.p)
        return FakePath.env["exists"]

    is_file = exists  # other ways of asking the same question

    def __fspath__(self):
        return self.p

    @property
    def name(self):
        return self.p.rsplit("/", 1)[-1]

    @property
    def parent(self):
        return FakePath(self.p.rsplit("/", 1)[0] if "/" in self.p else ".")

    def mkdir(self, *a, **k):
        return None

    def __getattr__(self, name):
        # anything else the code under test may start to ask of a path is outside this model: inconclusive, never an alarm
        raise Inconclusive(f"FakePath does not model Path.{name}")

    def as_posix(self):
        return self.p

    def __str__(self):
        return self.p

    __repr__ = __str__

    def __eq__(self, o):
        return isinstance(o, FakePath) and o.p == self.p

    def __hash__(self):
        return hash(self.p)


def _toy_mazes(k, tagbit):
    """k pairwise different solved 2x2 mazes with solution lengths 1, 2, 3, 4, 1, ... (distinguished by content)"""
    from maze_dataset import SolvedMaze

    ring = [(0, 0), (1, 0), (1, 1), (0, 1)]
    out = []
    for i in range(k):
        cl = np.zeros((2, 2, 2), dtype=bool)
        cl[0, 0, 0] = cl[1, 1, 0] = cl[0, 0, 1] = True
        cl[1, 0, 0] = bool(tagbit)
        n = i % 4 + 1
        sol = ring[:n] if (i // 4) % 2 == 0 else ring[:n][::-1]
        out.append(SolvedMaze(connection_list=cl, solution=np.array(sol)))
    return out


def _scenario(A, B, exists, outcome, flags):
    """run the real from_config with the environment stubbed; returns an observation record"""
    import importlib

    from maze_dataset import MazeDataset, MazeDatasetConfig

    dsmod = importlib.import_module("maze_dataset.dataset.dataset")
    env = dict(exists=exists, exists_asked=[], read=[], generate=[], save=[], download=[])
    FakePath.env = env
    loaded = MazeDataset(cfg=B, mazes=_toy_mazes(3, 1)) if B is not None else None

    def read(cls, path, *a, **k):
        env["read"].append(str(path))
        if outcome == "return":
            return loaded
        e = EXCS[outcome]
        raise (e() if not isinstance(e, type) else e("stubbed read failure"))

    gen_box = {}

    def generate(cls, cfg, **kw):
        env["generate"].append(cfg)
        g = MazeDataset(cfg=MazeDatasetConfig.load(c18._jsonify(cfg.serialize())), mazes=_toy_mazes(4, 0))  # as the real generate: a copy made through the serialized form
        gen_box["g"] = g
        gen_box["mazes"] = list(g.mazes)
        return g

    def save(self, path, *a, **k):
        env["save"].append((self, str(path)))

    def download(cls, cfg, **kw):
        env["download"].append(cfg)
        raise NotImplementedError("no download")

    saved = {k: MazeDataset.__dict__.get(k, None) for k in ("read", "generate", "save", "download")}
    saved_fname = MazeDatasetConfig.__dict__.get("to_fname")
    saved_path = dsmod.Path
    MazeDataset.read, MazeDataset.generate, MazeDataset.download = classmethod(read), classmethod(generate), classmethod(download)
    MazeDataset.save = save
    MazeDatasetConfig.to_fname = lambda self: "requested-name"
    dsmod.Path = FakePath
    rec = dict(env=env, loaded=loaded, gen=gen_box, result=None, exc=None)
    try:
        try:
            rec["result"] = MazeDataset.from_config(A, local_base_path="base", **flags)
        except Inconclusive:
            raise
        except Exception as e:
            rec["exc"] = e
    finally:
        dsmod.Path = saved_path
        MazeDatasetConfig.to_fname = saved_fname
        for k, v in saved.items():
            if v is None:
                delattr(MazeDataset, k)
            else:
                setattr(MazeDataset, k, v)
    return rec


def _fields_no_n(cfg):
    f = c18._fields(cfg)
    f.pop("n_mazes")
    return f


_CGM = [dict(name="collect_generation_meta", args=(), kwargs={})]


def _hatch(fa, fb):
    """the documented escape hatch: requested config has no filters, cached one has exactly collect_generation_meta"""
    a, b = dict(fa), dict(fb)
    af, bf = a.pop("applied_filters"), b.pop("applied_filters")
    if af == [] and len(bf) == 1 and bf[0]["name"] == "collect_generation_meta" and not bf[0]["args"] and not bf[0]["kwargs"]:
        return c18._eq_struct(a, b)
    return z3.BoolVal(False)


def _judge(rec, fa, fb, exists, outcome, flags, eq, hatch, T, F, AND, OR, NOT, IMP):
    """the oracle, generic over the boolean algebra (z3 terms in the symbolic run, Python bools in the replay).
    returns list of (description, value)"""
    env, res, exc = rec["env"], rec["result"], rec["exc"]
    load_local, save_local, do_generate = flags.get("load_local", True), flags.get("save_local", True), flags.get("do_generate", True)
    obs = []
    tried_read = len(env["read"]) > 0
    got_loaded = tried_read and outcome == "return"
    if load_local:
        obs.append(("the cache file is looked up under the requested name", T if env["exists_asked"] == ["base/requested-name.zanj"] else F))
        obs.append(("the file is read exactly when it exists", (exists if tried_read else NOT(exists))))
        if tried_read:
            obs.append(("the file read is the requested one, once", T if env["read"] == ["base/requested-name.zanj"] else F))
    else:
        obs.append(("load_local=False never touches the cache file", T if not tried_read else F))
    if got_loaded:
        served = res is rec["loaded"]
        obs.append(("a cached dataset is served only if its configuration matches the request in every field other than the maze count "
                    "(or through the documented collect_generation_meta escape hatch)", IMP(T if served else F, OR(eq, hatch))))
        obs.append(("a cached dataset whose configuration matches is served as it is", IMP(eq, T if served else F)))
        obs.append(("a mismatching cache file raises ValueError instead of returning other data",
                    IMP(NOT(OR(eq, hatch)), T if isinstance(exc, ValueError) and res is None else F)))
        obs.append(("a readable cache file is neither regenerated nor overwritten", T if not env["generate"] and not env["save"] else F))
        if served:
            obs.append(("the served dataset still holds the mazes that were in the file", T if [id(m) for m in res.mazes] == [id(m) for m in rec["loaded"].mazes] else F))
    else:
        if do_generate:
            ok_gen = len(env["generate"]) == 1 and exc is None and res is not None and res is not rec["loaded"]
            obs.append(("a missing or unreadable cache file leads to exactly one fresh generation and no exception", T if ok_gen else F))
            if ok_gen:
                obs.append(("generation is asked for the requested configuration", c18._eq_struct(c18._fields(env["generate"][0]), fa) if T is not True else
                            (T if _j(c18._fields(env["generate"][0])) == _j(fa) else F)))
                keep = rec.get("expected_kept")
                if keep is not None:
                    obs.append(("the returned dataset is the fresh generation with the configured filters applied", keep))
                obs.append(("the regenerated dataset is saved exactly once under the requested name iff save_local",
                            T if ([(s is res, p) for s, p in env["save"]] == ([(True, "base/requested-name.zanj")] if save_local else [])) else F))
        else:
            obs.append(("without generation a missing or unreadable file is an error, not a silent result", T if isinstance(exc, ValueError) and res is None else F))
    return obs


def _j(x):
    return json.dumps(c18._plain(x), sort_keys=True, default=str)


def _run_decide(job):
    def run(ctx, pinned=None):
        A, ta = c18._build(ctx, "a", job["gen"], job["kw"], job["ep"], job["fa"])
        B, tb = c18._build(ctx, "b", job.get("gen2", job["gen"]), job["kw"], job["ep"], job["fb"] if job["fb"] != "cgm" else job["fa"])
        B.name = A.name
        if job["fb"] == "cgm":
            B.applied_filters = list(B.applied_filters) + copy.deepcopy(_CGM)
        if job.get("tie"):  # focus: B agrees with A except possibly in the named fields (keeps the interesting region reachable in few paths)
            for k in ta:
                if k not in job["tie"] and k in tb:
                    ctx.solver.add(ta[k] == tb[k])
        exists = fresh_bool("file_exists")
        fa, fb = c18._fields(A), c18._fields(B)
        fa_n, fb_n = _fields_no_n(A), _fields_no_n(B)
        flags = dict(job["flags"])
        rec = _scenario(A, B, exists, job["read"], flags)
        eq = c18._eq_struct(fa_n, fb_n)
        hatch = _hatch(fa_n, fb_n)
        if rec["result"] is not None and rec["gen"].get("g") is not None and rec["exc"] is None:
            rec["expected_kept"] = _filters_oracle(rec, A, sym=True)
        ex = zb(exists)
        return _judge(rec, fa, fb, ex, job["read"], flags, eq, hatch, z3.BoolVal(True), z3.BoolVal(False), z3.And, z3.Or, z3.Not, z3.Implies)

    return run


def _filters_oracle(rec, A, sym):
    """res.mazes must be the generated mazes with len(solution) >= min_length for every recorded path_length filter, in order"""
    gm, res = rec["gen"]["mazes"], rec["result"]
    mins = [f["kwargs"]["min_length"] for f in A.applied_filters if f["name"] == "path_length"]
    others = [f for f in A.applied_filters if f["name"] != "path_length"]
    if others:
        return None
    pos = {id(m): i for i, m in enumerate(gm)}
    got = [pos.get(id(m), None) for m in res.mazes]
    if any(g is None for g in got):
        # filters return copies: compare by content
        got = []
        for m in res.mazes:
            hit = [i for i, g in enumerate(gm) if (g.connection_list == m.connection_list).all() and g.solution.shape == m.solution.shape and (g.solution == m.solution).all()]
            got.append(hit[0] if hit else None)
    if sym:
        conj = []
        for i, g in enumerate(gm):
            should = z3.And(*[z3.IntVal(len(g.solution)) >= (mn.e if is_sym(mn) else int(mn)) for mn in mins]) if mins else z3.BoolVal(True)
            conj.append(should == z3.BoolVal(i in got))
        conj.append(z3.BoolVal(got == sorted(got) and None not in got))
        return z3.And(*conj)
    want = [i for i, g in enumerate(gm) if all(len(g.solution) >= int(mn) for mn in mins)]
    return got == want


def _replay_decide(job, inputs, notes):
    A = c18._concrete_cfg(dict(gen=job["gen"], kw=job["kw"], ep=job["ep"], f=job["fa"]), inputs, "a")
    jb = dict(gen=job["gen"], gen2=job.get("gen2", job["gen"]), kw=job["kw"], ep=job["ep"], f=job["fb"] if job["fb"] != "cgm" else job["fa"])
    B = c18._concrete_cfg(jb, inputs, "b")
    B.name = A.name
    if job["fb"] == "cgm":
        B.applied_filters = list(B.applied_filters) + copy.deepcopy(_CGM)
    exists = bool(inputs.get("file_exists", False))
    fa, fb = c18._fields(A), c18._fields(B)
    fa_n, fb_n = _fields_no_n(A), _fields_no_n(B)
    eq = _j(fa_n) == _j(fb_n)
    a2, b2 = dict(fa_n), dict(fb_n)
    af, bf = a2.pop("applied_filters"), b2.pop("applied_filters")
    hatch = af == [] and _j(bf) == _j(_CGM) and _j(a2) == _j(b2)
    flags = dict(job["flags"])
    try:
        rec = _scenario(A, B, exists, job["read"], flags)
    except Exception as e:
        return f"cache-decision-harness | {type(e).__name__}: {e}"
    if rec["result"] is not None and rec["gen"].get("g") is not None and rec["exc"] is None:
        rec["expected_kept"] = _filters_oracle(rec, A, sym=False)
    obs = _judge(rec, fa, fb, exists, job["read"], flags, eq, hatch, True, False, lambda *a: all(a), lambda *a: any(a), lambda a: not a, lambda a, b: (not a) or b)
    for desc, ok in obs:
        if not ok:
            key = "cache-serves-mismatch" if "served only" in desc else "cache-mismatch-not-raised" if "raises ValueError" in desc else \
                "cache-unreadable-not-regenerated" if ("fresh generation" in desc or "saved exactly once" in desc or "requested configuration" in desc) else "cache-decision"
            exc = rec["exc"]
            return (f"{key} | {desc}: requested {_j(fa)}, file holds {_j(fb)}, exists={exists}, read -> {job['read']}, flags={flags}; "
                    f"result={'cached dataset' if rec['result'] is rec['loaded'] else type(rec['result']).__name__}, exception={type(exc).__name__ if exc else None}: {str(exc)[:100] if exc else ''}")
    return None


# ------------------------------------------------------------------ stub contract vs the real reader (concrete)
def _real_file_problem(job):
    import warnings
    from pathlib import Path

    from maze_dataset import MazeDataset, MazeDatasetConfig
    from maze_dataset.generation.generators import GENERATORS_MAP

    warnings.filterwarnings("ignore")
    cfg = MazeDatasetConfig(name="c11", grid_n=job["grid_n"], n_mazes=job["n_mazes"], seed=job["seed"], maze_ctor=GENERATORS_MAP[job["gen"]], maze_ctor_kwargs=dict(job.get("kwargs", {})))
    d = Path(tempfile.mkdtemp(prefix="verif-c11-"))
    n = 0
    try:
        ref = MazeDataset.from_config(copy.deepcopy(cfg), local_base_path=d, load_local=False, save_local=True)
        f = d / (cfg.to_fname() + ".zanj")
        data = f.read_bytes()

        def same(r):
            return len(r) == len(ref) and all((a.connection_list == b.connection_list).all() and a.solution.shape == b.solution.shape and (a.solution == b.solution).all() for a, b in zip(r, ref))

        cuts = sorted(set(list(range(0, len(data), max(1, len(data) // job["points"]))) + [1, len(data) - 1]))
        variants = [("truncated at byte %d" % c, data[:c]) for c in cuts]
        rng = np.random.default_rng(job["seed"])
        for pos in rng.choice(len(data), size=min(job["points"] // 2, len(data)), replace=False):
            b = bytearray(data)
            b[pos] ^= 0xFF
            variants.append((f"byte {pos} inverted", bytes(b)))
        for what, content in variants:
            f.write_bytes(content)
            try:
                r = MazeDataset.read(f)
                outcome = "return"
            except Exception:
                outcome = "raise"
            except BaseException as e:  # outside the stub's outcome set
                return f"cache-read-contract | real read of a file {what} raised {type(e).__name__}, which from_config does not handle"
            if outcome == "return" and not isinstance(r, MazeDataset):
                return f"cache-read-contract | real read of a file {what} returned a {type(r).__name__}"
            try:
                got = MazeDataset.from_config(copy.deepcopy(cfg), local_base_path=d)
            except ValueError as e:
                if outcome == "return" and "config mismatch" in str(e):
                    n += 1
                    continue  # a corrupted byte inside the stored configuration: mismatch is reported, never served
                return f"cache-unreadable-not-regenerated | from_config on a cache file {what} raised ValueError: {str(e)[:120]}"
            except Exception as e:
                return f"cache-unreadable-not-regenerated | from_config on a cache file {what} raised {type(e).__name__}: {str(e)[:120]}"
            if not same(got):
                return f"cache-serves-wrong-data | from_config on a cache file {what} returned mazes that differ from a fresh generation"
            try:
                again = MazeDataset.read(f)
            except Exception as e:
                return f"cache-not-left-loadable | after from_config on a cache file {what} the file cannot be read: {type(e).__name__}"
            if not same(again):
                return f"cache-not-left-loadable | after from_config on a cache file {what} the file holds other mazes"
            n += 1
        job["_traces"] = n
    finally:
        shutil.rmtree(d, ignore_errors=True)
    return None


def _run_realfile(job):
    def run(ctx, pinned=None):
        from symx import harness as H

        with H.unpatched():
            p = _real_file_problem(job)
        ctx.notes["problem"] = p
        ctx.notes["validated"] = job.get("_traces", 0)
        return [("stub contract: the real reader on truncated / corrupted files raises an Exception or returns a dataset, and the real from_config "
                 "regenerates the same mazes and leaves a loadable file", z3.BoolVal(p is None))]

    return run


def _replay_realfile(job, inputs, notes):
    return _real_file_problem(job)


# ------------------------------------------------------------------------------------------ jobs
def jobs(tier, seed):
    q = tier == "quick"
    out = []
    D = dict(load_local=True, save_local=True, do_generate=True)
    shapes = [("gen_dfs", "none", "none"), ("gen_dfs", "acc_depth", "flags"), ("gen_dfs_percolation", "p", "allowed"), ("gen_percolation", "start", "allowed_both"), ("gen_prim", "acc", "none")]
    if not q:
        shapes += [("gen_wilson", "none", "flags"), ("gen_dfs", "acc", "allowed_both"), ("gen_dfs_percolation", "acc_depth", "allowed"), ("gen_prim", "start", "flags")]
    fpairs = [("none", "none"), ("one_kw", "one_kw"), ("none", "cgm"), ("one_kw", "cgm"), ("none", "one_kw"), ("two", "one_kw"), ("one_kw", "none")]
    k = 0
    for gen, kw, ep in shapes:
        for fa, fb in (fpairs if (not q or gen == "gen_dfs") else fpairs[k % 3::3]):
            out.append(dict(h="decide", gen=gen, kw=kw, ep=ep, fa=fa, fb=fb, read="return", flags=D))
            k += 1
    # a different generator stored under the requested name
    out.append(dict(h="decide", gen="gen_dfs", gen2="gen_prim", kw="acc", ep="none", fa="none", fb="none", read="return", flags=D))
    out.append(dict(h="decide", gen="gen_percolation", gen2="gen_dfs_percolation", kw="p", ep="none", fa="one_kw", fb="one_kw", read="return", flags=D))
    # unreadable / missing file: every exception class of the stub's outcome set
    excs = list(EXCS)
    for i, e in enumerate(excs if not q else excs):
        gen, kw, ep = shapes[i % len(shapes)]
        out.append(dict(h="decide", gen=gen, kw=kw, ep=ep, fa=["none", "one_kw", "two"][i % 3] if gen != "x" else "none", fb="none", read=e, flags=D))
    # flag combinations
    for ll in (True, False):
        for sl in (True, False):
            for dg in (True, False):
                if (ll, sl, dg) == (True, True, True) or not (ll or dg):
                    continue
                for rd in ("return", "BadZipFile"):
                    out.append(dict(h="decide", gen="gen_dfs", kw="acc", ep="flags", fa="one_kw", fb="one_kw", read=rd, flags=dict(load_local=ll, save_local=sl, do_generate=dg)))
    out.append(dict(h="decide", gen="gen_dfs", kw="none", ep="none", fa="none", fb="cgm", read="return", flags=dict(D, allow_generation_metadata_filter_mismatch=False)))
    # stub contract against the real reader / writer
    reals = [dict(gen="gen_dfs", grid_n=3, n_mazes=4, seed=7)]
    if not q:
        reals += [dict(gen="gen_dfs_percolation", grid_n=4, n_mazes=3, seed=1, kwargs=dict(p=0.3)), dict(gen="gen_wilson", grid_n=2, n_mazes=120, seed=3)]
    for r in reals:
        out.append(dict(h="realfile", points=24 if q else 400, max_seconds=3300, **r))
    out[0]["twin"] = True
    return out


HARNESSES = {
    "decide": dict(run=_run_decide, replay=_replay_decide, patch=c18._patch_cfg, validate_every=4),
    "realfile": dict(run=_run_realfile, replay=_replay_realfile, patch=dict(np_modules=[], stub_ascii=False)),
}

META = dict(
    functions=["GPTDataset.from_config (load / download / generate priority, configuration comparison, save)", "MazeDatasetConfig.serialize", "muutils SerializableDataclass.diff / dc_eq / array_safe_eq",
               "GPTDataset._apply_filters_from_config", "MazeDatasetFilters.path_length"],
    bounds=dict(
        quick="requested configuration A and cached configuration B with all int / bool / coordinate fields symbolic (grid_n 1..64, n_mazes 0..10^6, seed 0..2^31-1, seq_len 0..2048, "
              "generator arguments, endpoint flags and coordinates, filter arguments), 5 shape combinations x 7 filter-list pairs (incl. the collect_generation_meta escape hatch and its "
              "near misses), a different generator under the requested name, 16 exception classes for an unreadable file, the file's existence symbolic, 10 flag combinations; "
              "stub contract validated on one real cache file at 24 truncation points and 12 single-byte corruptions",
        thorough="9 shape combinations, three real cache files (incl. one in the minimal format) at 400 truncation points and 200 corruptions each",
    ),
    degenerate=dict(realfile="concrete: real files, real ZANJ reader and writer (validation of the stub contract, not solver coverage)"),
    stubs=["pathlib.Path in maze_dataset.dataset.dataset -> FakePath (exists() is a symbolic boolean)", "MazeDataset.read -> raises one of 16 exception classes or returns a dataset holding the "
           "symbolic configuration B", "MazeDataset.generate -> recognisable fresh dataset for the configuration it is called with", "MazeDataset.save -> recorded", "MazeDataset.download -> NotImplementedError",
           "MazeDatasetConfig.to_fname -> constant (the file name is C18's subject; here a file under the requested name is an input)", "muutils set_reproducibility -> no-op"],
    outside=["which bytes make the real ZANJ / zip reader raise: every truncation point and corruption beyond the sampled ones", "interrupted saves at the level of individual low-level writes "
             "(the decision logic is shown to regenerate and re-save whenever reading raises, whatever the cause)", "except_on_config_mismatch=False (explicit opt-out: only warns)",
             "BaseException subclasses raised by the reader (KeyboardInterrupt etc.)", "file-name collisions through the five-digit hash suffix (modelled: any configuration may sit under the requested name)"],
    assumptions=["a missing, empty, truncated or corrupted file makes `read` raise an Exception or return some dataset (validated on real files per run)", "`save` writes a loadable file (validated on real files per run)"],
)

MANIFEST = dict(
    level_text="PARTIAL: bounded symbolic execution of the real from_config decision logic with the file system, the ZANJ reader/writer and the generator replaced by "
               "nondeterministic stubs (file existence, read outcome, cached configuration symbolic); every obligation on every explored path discharged by z3, "
               "counterexamples replayed on the real code. Byte-level truncation/corruption of real files is only sampled concretely to validate the stub contract; "
               "crash points inside the writer are outside the claim.",
    design_ref="DESIGN.md section 12 (C11)",
    level_note="trusted: z3 5.1.0, CPython, the stub contracts (read raises an Exception or returns a dataset; save leaves a loadable file) which are validated per run against the real "
               "ZANJ reader/writer on truncated and corrupted files; bounds and stubs are listed in the evidence file",
)
