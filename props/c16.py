"""C16 - a dataset collection is exactly the concatenation of its member datasets.

The global index is a symbolic integer.  Members are stand-in datasets whose items are the global
ids of the independent concatenation (member k holds ids off_k .. off_k+len_k-1 and answers a symbolic
local index i with the term off_k + i), so `collection[i]` comes back as a z3 term and the claim
`collection[i] == i` is decided for every index a path covers with one query.
"""

from __future__ import annotations

import itertools

import numpy as np
import z3

from symx.core import SInt, cur, fresh_int, is_sym, zi
from symx.harness import stubs_description

from props import alias_common as _alias

ID = "C16"


def _members(lengths, names, grid_ns, stale=False):
    from maze_dataset import MazeDataset, MazeDatasetConfig

    class SymMember(MazeDataset):
        """member dataset holding global ids; a symbolic local index yields the id as a term"""

        def __getitem__(self, i):
            if is_sym(i):
                n = len(self.mazes)
                c = cur()
                # list semantics: in range (incl. negative wrap) or IndexError
                if c.branch(z3.And(zi(i) >= 0, zi(i) < n)):
                    return SInt(self._off + zi(i))
                return self.mazes[int(i)]
            return self.mazes[i]

    out, off = [], 0
    for L, nm, g in zip(lengths, names, grid_ns):
        # stale: the member's configuration still carries the count of a larger pool it was cut from (e.g. after slicing)
        cfg = MazeDatasetConfig(name=nm, grid_n=g, n_mazes=L + (3 if stale else 0))
        m = SymMember(cfg, list(range(off, off + L)))
        m._off = off
        out.append(m)
        off += L
    return out


def _collection(lengths, names, grid_ns, stale=False):
    from maze_dataset.dataset.collected_dataset import MazeDatasetCollection, MazeDatasetCollectionConfig

    ms = _members(lengths, names, grid_ns, stale)
    cfg = MazeDatasetCollectionConfig(name="coll", maze_dataset_configs=[m.cfg for m in ms])
    return MazeDatasetCollection(cfg, ms), ms


def _history():
    """other collections with other length vectors are alive and were read before the measured access (lookups must not share state)"""
    import os

    if os.environ.get("VERIF_DEV_NO_EXPLICIT_HISTORY"):  # development switch: exercises the generic history replay of the runner instead
        return None
    for lengths, idxs in (([1, 0, 3], [1, 3]), ([0, 2, 0, 0, 2], [3]), ([4], [2])):
        other, _ = _collection(lengths, [f"h{i}" for i in range(len(lengths))], [2] * len(lengths))
        for i in idxs:
            assert other[i] == i, "history collection (concrete index) misbehaves"
    return other


def _name_patterns(k):
    pats = [[f"m{i}" for i in range(k)]]
    if k >= 2:
        pats.append(["same"] * k)  # members may share a name
    if k >= 1:
        pats.append([f"stale{i}" for i in range(k)])  # members whose configurations report a stale maze count until update_self_config
    return pats


def _vectors(tier, seed):
    q = tier == "quick"
    maxk, maxl = (4, 3) if q else (5, 4)
    vecs = []
    for k in range(1, maxk + 1):
        allv = list(itertools.product(range(maxl + 1), repeat=k))
        if q and k == 4:
            rng = np.random.default_rng(seed + 4)
            keep = {(0, 0, 0, 0), (0, 0, 2, 0), (1, 0, 0, 3), (0, 0, 0, 1), (3, 0, 0, 0), (0, 1, 0, 1), (2, 0, 3, 0), (0, 0, 1, 1)}
            keep |= {allv[i] for i in rng.choice(len(allv), size=40, replace=False)}
            allv = sorted(keep)
        vecs += [list(v) for v in allv]
    if not q:  # six members, lengths 0..2, exhaustively
        vecs += [list(v) for v in itertools.product(range(3), repeat=6)]
    return vecs


def jobs(tier, seed):
    vecs = _vectors(tier, seed)
    out = []
    chunk = 12 if tier == "quick" else 48
    for i in range(0, len(vecs), chunk):
        out.append(dict(h="getitem", vectors=vecs[i:i + chunk], label=f"getitem:vectors[{i}:{i + chunk}]"))
    # large members: running totals beyond the int8 / int16 / uint16 ranges (the index stays symbolic over the whole collection)
    out.append(dict(h="getitem", vectors=[[]], label="getitem:no members"))  # a collection without members is empty, not an error
    big = [[127, 1], [128, 0, 1], [100, 100, 100], [255, 0, 2], [20000, 0, 12768], [32767, 1], [32768], [40000, 3], [1, 65535, 2]]
    if tier != "quick":
        big += [[70000, 1, 70000], [0, 32768, 0, 32768], [2 ** 17, 5]]
    out.append(dict(h="getitem", vectors=big, label="getitem:large members"))
    out.append(dict(_alias.ALIAS_JOB))  # results must not alias library state, arguments or each other (props/alias_common.py)
    out[0]["twin"] = True
    return out


def _grid_ns(k, vi):
    return [2 + ((j + vi) % 3) for j in range(k)]


def _run_getitem(job):
    vectors = job["vectors"]

    def run(ctx, pinned=None):
        import maze_dataset.dataset.collected_dataset as cd
        from symx.harness import SNP

        # which (vector, name pattern) instance this path explores is itself a solver-free choice
        inst = [(vi, v, names) for vi, v in enumerate(vectors) for names in _name_patterns(len(v))]
        vi, v, names = inst[ctx.choose(len(inst))]
        total = sum(v)
        ctx.inputs["instance"] = z3.IntVal(inst.index((vi, v, names)))
        old = cd.np
        cd.np = SNP
        try:
            _history()
            stale = bool(names) and names[0].startswith("stale")
            coll, ms = _collection(v, names, _grid_ns(len(v), vi), stale)
            obs = [("len == sum of member lengths", z3.BoolVal(len(coll) == total)),
                   ("per-member lengths", z3.BoolVal(list(coll.dataset_lengths) == list(v))),
                   ("flattened maze list is the concatenation in order", z3.BoolVal(list(coll.mazes) == list(range(total))))]
            if not stale:
                obs.append(("reported maze count agrees", z3.BoolVal(coll.cfg.n_mazes == total)))
            coll.update_self_config()
            obs.append(("reported maze count agrees after update_self_config", z3.BoolVal(coll.cfg.n_mazes == total and len(coll) == total)))
            if total > 0:
                i = fresh_int("i", 0, total - 1)
                iv = ctx.inputs["i"]
                item = coll[i]
                obs.append(("collection[i] is item i of the concatenation", zi(item) == iv))
        finally:
            cd.np = old
        ctx.notes["vector"] = list(v)
        ctx.notes["names"] = list(names)
        return obs

    return run


def _replay_getitem(job, inputs, notes):
    inst = [(vi, v, names) for vi, v in enumerate(job["vectors"]) for names in _name_patterns(len(v))]
    vi, v, names = inst[inputs["instance"]]
    total = sum(v)
    tag = f"lengths={v} names={names}"
    try:
        _history()
    except Exception as e:
        return f"collection-getitem | reading several collections with different length vectors one after the other ([1,0,3], [0,2,0,0,2], [4], then {tag}): {type(e).__name__}: {str(e)[:100]}"
    stale = bool(names) and names[0].startswith("stale")
    try:
        coll, ms = _collection(v, names, _grid_ns(len(v), vi), stale)
    except Exception as e:
        return f"collection-construct | {tag} grid sizes {_grid_ns(len(v), vi)}: building the collection raised {type(e).__name__}: {str(e)[:100]}"
    try:
        n_now = len(coll)
    except Exception as e:
        return f"collection-length | {tag}: len(collection) raised {type(e).__name__}: {str(e)[:100]}"
    if n_now != total or list(coll.dataset_lengths) != list(v):
        return f"collection-length | {tag}: len={len(coll)} dataset_lengths={coll.dataset_lengths}"
    if list(coll.mazes) != list(range(total)):
        return f"collection-mazes | {tag}: mazes={coll.mazes}"
    if not stale and coll.cfg.n_mazes != total:
        return f"collection-count | {tag}: cfg.n_mazes={coll.cfg.n_mazes} total={total}"
    coll.update_self_config()
    if coll.cfg.n_mazes != total or len(coll) != total or list(coll.dataset_lengths) != list(v):
        return (f"collection-count | {tag}{' (member configurations reported stale counts before)' if stale else ''}: after update_self_config cfg.n_mazes={coll.cfg.n_mazes}, "
                f"len={len(coll)}, dataset_lengths={coll.dataset_lengths}, mazes={len(coll.mazes)}")
    if "i" in inputs and total > 0:
        i = inputs["i"]
        try:
            got = coll[i]
        except Exception as e:
            return f"collection-getitem | {tag}: collection[{i}] raised {type(e).__name__}: {e}"
        if got != i:
            return f"collection-getitem | {tag}: collection[{i}] is item {got} of the concatenation"
    return None


HARNESSES = {"getitem": dict(run=_run_getitem, replay=_replay_getitem, patch=dict(np_modules=[], stub_ascii=False))}
HARNESSES["alias"] = _alias.alias_harness("C16")

META = dict(
    functions=["MazeDatasetCollection.__init__", "__getitem__", "__len__", "dataset_lengths", "dataset_cum_lengths", "mazes", "update_self_config",
               "MazeDatasetCollectionConfig.n_mazes"],
    bounds=dict(quick="global index symbolic (0 <= i < len); all member-length vectors over 0..3 for 1..3 members, 48 vectors for 4 members; "
                      "member names distinct and all-equal, member configurations with stale counts; member grid sizes 2..4; 9 vectors with large members (running totals past 127, 255, 32767, 65535)",
                thorough="all vectors over 0..4 for 1..5 members (3905 vectors) and all vectors over 0..2 for 6 members (729); 12 vectors with large members"),
    degenerate=dict(getitem="the length vector is enumerated (len() must return a Python int); the index is symbolic within each vector, "
                            "a path covers all indices that fall into one member"),
    stubs=["np -> symbolic shim in maze_dataset.dataset.collected_dataset (np.searchsorted on the cumulative lengths)",
           "member datasets are stand-ins (MazeDataset subclass) holding the global ids of the independent concatenation"],
    outside=["indices outside 0 <= i < len (negative / too large)", "more than 5 members with lengths above 2, more than 6 members, or lengths above 4 (except the listed large-member vectors)"],
    assumptions=["three other collections (lengths [1,0,3], [0,2,0,0,2], [4]) are built and read before every measured access (fixed pre-history)", "items are identified by their position in the independently built concatenation"],
)

META.setdefault("degenerate", {})["alias"] = _alias.ALIAS_META
