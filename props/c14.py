"""C14 - token vocabularies and token-id codecs are fixed, duplicate-free, invertible."""

from __future__ import annotations

import json
from pathlib import Path

import numpy as np
import z3

from symx.core import SBool, SInt, cur, fresh_int, is_sym, zb, zi, Inconclusive
from symx.harness import SNP, stubs_description

from props import alias_common as _alias

ID = "C14"
REF = Path(__file__).resolve().parent.parent / "refs" / "vocab_list_4096.json"


class SymList(list):
    """list whose indexing accepts a symbolic integer without enumerating out-of-range values:
    out of range -> IndexError (one path), in range (incl. Python's negative wrap) -> forked values"""

    def __getitem__(self, i):
        if is_sym(i):
            n = len(self)
            c = cur()
            e = zi(i)
            if c.branch(z3.Or(e >= n, e < -n)):
                raise IndexError("list index out of range")
            v = c.choose_value(e, range(-n, n))
            if type(i) is SInt:
                i.e = z3.IntVal(v)  # pinned on this path from now on
            return list.__getitem__(self, v)
        return list.__getitem__(self, i)


# ------------------------------------------------------------------------------------ sort-key lemma
def _capture_key():
    import maze_dataset.utils as u

    box = {}

    def fake_sorted(it, key=None, **kw):
        box["key"] = key
        box["items"] = list(it)
        return sorted(box["items"], key=key, **kw)

    u.sorted = fake_sorted
    try:
        out = u.corner_first_ndindex(3, 2)
    finally:
        del u.sorted
    return box.get("key"), out, box.get("items")


def _run_sortkey(job):
    def run(ctx, pinned=None):
        key, out3, items = _capture_key()
        if key is None:
            # the ordering is no longer produced by sorted(key=...): the lemma does not apply to this code
            from symx.core import Inconclusive

            raise Inconclusive("corner_first_ndindex does not call sorted(key=...) any more; sort-key lemma harness needs updating")
        x = (fresh_int("x0", 0), fresh_int("x1", 0))
        y = (fresh_int("y0", 0), fresh_int("y1", 0))
        xv = [ctx.inputs["x0"], ctx.inputs["x1"]]
        yv = [ctx.inputs["y0"], ctx.inputs["y1"]]
        mx = z3.If(xv[0] >= xv[1], xv[0], xv[1])
        my = z3.If(yv[0] >= yv[1], yv[0], yv[1])
        mode = job["mode"]
        if mode == "shell":
            # strictly smaller maximum coordinate  =>  strictly smaller key  (over all of N^2 x N^2)
            ctx.solver.add(mx < my)
            kx, ky = key(x), key(y)
            lt = kx < ky
            return [("max(x) < max(y)  =>  key(x) < key(y)", zb(lt) if is_sym(lt) else z3.BoolVal(bool(lt)))]
        if mode == "total":
            # the key never makes two cells incomparable in a way that could depend on the grid size:
            # not (key(x) < key(y)) and not (key(y) < key(x))  =>  keys equal (ties are broken by the stable sort)
            kx, ky = key(x), key(y)
            a, b, e = kx < ky, ky < kx, kx == ky
            a, b, e = (zb(v) if is_sym(v) else z3.BoolVal(bool(v)) for v in (a, b, e))
            return [("key order is a strict weak order on pairs", z3.And(z3.Not(z3.And(a, b)), z3.Or(a, b, e)))]
        raise AssertionError(mode)

    return run


def _replay_sortkey(job, inputs, notes):
    from maze_dataset.utils import corner_first_ndindex

    x, y = (inputs["x0"], inputs["x1"]), (inputs["y0"], inputs["y1"])
    n = max(max(x), max(y)) + 1
    if n > 400:
        return None  # cannot materialise such a grid; treated as non-reproducing
    small = corner_first_ndindex(max(min(max(x), max(y)) + 1, 1))
    big = corner_first_ndindex(n)
    if big[: len(small)] != small:
        return f"corner-first-prefix | corner_first_ndindex({len(small) ** 0.5:.0f}) is not a prefix of corner_first_ndindex({n}) (cells {x}, {y})"
    if job["mode"] == "shell" and max(x) < max(y) and big.index(x) > big.index(y):
        return f"corner-first-order | {x} (max {max(x)}) is ordered after {y} (max {max(y)}) for n={n}"
    return None


# --------------------------------------------------------------------------------------- id codecs
def _tokenizer(job):
    from maze_dataset.tokenization import MazeTokenizer, MazeTokenizerModular, TokenizationMode

    if job["tok"] == "modular":
        return MazeTokenizerModular(), 4096
    t = MazeTokenizer(tokenization_mode=TokenizationMode[job["tok"]], max_grid_size=job["g"])
    return t, len(t.token_arr)


def _run_decode(job):
    from maze_dataset.tokenization.maze_tokenizer import TokenError

    L = job["L"]

    def run(ctx, pinned=None):
        import maze_dataset.tokenization.maze_tokenizer as mt

        tok, n = _tokenizer(job)
        if job.get("window"):
            lo, hi = job["window"]
            ids = [fresh_int(f"id{k}", lo, hi) for k in range(L)]
        else:
            ids = [fresh_int(f"id{k}") for k in range(L)]  # all integers
        iv = [ctx.inputs[f"id{k}"] for k in range(L)]
        in_range = z3.And(*[z3.And(v >= 0, v < n) for v in iv])
        old = mt.VOCAB_LIST
        mt.VOCAB_LIST = SymList(old)
        if job["tok"] != "modular":
            tok.__dict__["token_arr"] = SymList(tok.token_arr)
        try:
            try:
                toks = tok.decode(list(ids))
            except TokenError:
                return [("TokenError only for an id outside the vocabulary", z3.Not(in_range))]
            except Inconclusive:
                raise
            except Exception as e:
                return [(f"unknown id raises the library's TokenError (got {type(e).__name__})", z3.BoolVal(False))]
            obs = [("decode succeeds only for ids inside the vocabulary", in_range)]
            back = tok.encode(list(toks))
            obs.append(("encode(decode(ids)) == ids", z3.And(*[zi(b) == v for b, v in zip(back, iv)], z3.BoolVal(len(back) == L))))
            ref = tok.token_arr
            obs.append(("decode returns the vocabulary entry at that id",
                        z3.And(*[z3.Or(*[z3.And(v == k, z3.BoolVal(True)) for k in range(n) if list.__getitem__(ref, k) == t]) for t, v in zip(toks, iv)])))
            joined = tok.decode(list(ids), joined_tokens=True)
            obs.append(("joined decoding is the space-joined token list", z3.BoolVal(joined == " ".join(toks))))
            return obs
        finally:
            mt.VOCAB_LIST = old

    return run


def _replay_decode(job, inputs, notes):
    from maze_dataset.tokenization.maze_tokenizer import TokenError

    tok, n = _tokenizer(job)
    ids = [inputs[f"id{k}"] for k in range(job["L"])]
    ok = all(0 <= i < n for i in ids)
    name = "MazeTokenizerModular" if job["tok"] == "modular" else f"MazeTokenizer({job['tok']},g={job['g']})"
    try:
        toks = tok.decode(ids)
    except TokenError:
        return None if not ok else f"decode-rejects-valid:{name} | decode({ids}) raised TokenError"
    except Inconclusive:
        raise
    except Exception as e:
        return f"decode-wrong-error:{name} | decode({ids}) raised {type(e).__name__} instead of TokenError"
    if not ok:
        return f"decode-accepts-invalid:{name} | decode({ids}) returned {toks} for ids outside 0..{n - 1}"
    if tok.encode(toks) != ids or [tok.token_arr[i] for i in ids] != toks:
        return f"codec-not-inverse:{name} | decode({ids})={toks}, encode back={tok.encode(toks)}"
    return None


def _run_encode(job):
    """every vocabulary token encodes to its position and decodes back; unknown tokens raise TokenError (finite table: exhaustive)"""
    from maze_dataset.tokenization.maze_tokenizer import TokenError

    def run(ctx, pinned=None):
        tok, n = _tokenizer(job)
        arr = list(tok.token_arr)
        kk = ctx.choose(n)  # forked: exhaustive over the table
        ctx.inputs["k"] = z3.IntVal(kk)
        t = arr[kk]
        obs = [("encode(token at position k) == [k]", z3.BoolVal(tok.encode([t]) == [kk])),
               ("decode(encode(token)) == token", z3.BoolVal(tok.decode(tok.encode([t])) == [t])),
               ("token-to-id map is the inverse of the token list", z3.BoolVal(tok.tokenizer_map[t] == kk))]
        if kk == 0:
            for bad in ("<NOT_A_TOKEN>", "(50,50)", "(-1,0)", "", "( 0,0)"):
                if bad in arr:
                    continue
                try:
                    tok.encode([bad])
                    obs.append((f"unknown token {bad!r} raises TokenError", z3.BoolVal(False)))
                except TokenError:
                    obs.append((f"unknown token {bad!r} raises TokenError", z3.BoolVal(True)))
                except Inconclusive:
                    raise
                except Exception as e:
                    obs.append((f"unknown token {bad!r} raises TokenError (got {type(e).__name__})", z3.BoolVal(False)))
            obs.append(("string input is split on whitespace", z3.BoolVal(tok.encode(f"{arr[0]} {arr[-1]}") == [0, n - 1])))
            obs.append(("vocabulary is duplicate-free", z3.BoolVal(len(set(arr)) == len(arr) and len(tok.tokenizer_map) == len(arr))))
        return obs

    return run


def _replay_encode(job, inputs, notes):
    from maze_dataset.tokenization.maze_tokenizer import TokenError

    tok, n = _tokenizer(job)
    arr = list(tok.token_arr)
    name = "MazeTokenizerModular" if job["tok"] == "modular" else f"MazeTokenizer({job['tok']},g={job['g']})"
    k = inputs.get("k", 0)
    t = arr[k]
    if tok.encode([t]) != [k] or tok.decode([k]) != [t] or tok.tokenizer_map[t] != k:
        return f"vocab-not-inverse:{name} | token {t!r} at position {k}: encode={tok.encode([t])} map={tok.tokenizer_map[t]}"
    if len(set(arr)) != len(arr):
        return f"vocab-duplicates:{name} | {len(arr) - len(set(arr))} duplicate tokens"
    for bad in ("<NOT_A_TOKEN>", "(50,50)", "(-1,0)", "", "( 0,0)"):
        if bad in arr:
            continue
        try:
            tok.encode([bad])
            return f"encode-accepts-unknown:{name} | encode([{bad!r}]) did not raise"
        except TokenError:
            pass
        except Inconclusive:
            raise
        except Exception as e:
            return f"encode-wrong-error:{name} | {type(e).__name__} for {bad!r}"
    return None


# ------------------------------------------------------------------------------------------ tables
def _table_problems(job):
    """concrete constant-table checks (no symbolic input)"""
    from maze_dataset.constants import SPECIAL_TOKENS, VOCAB, VOCAB_LIST, VOCAB_TOKEN_TO_INDEX
    from maze_dataset.tokenization import MazeTokenizer, TokenizationMode
    from maze_dataset.utils import corner_first_ndindex

    what = job["what"]
    if what == "modular_layout":
        ref = json.loads(REF.read_text())
        if len(VOCAB_LIST) != 4096 or len(set(VOCAB_LIST)) != 4096:
            return f"vocab-size | {len(VOCAB_LIST)} tokens, {len(set(VOCAB_LIST))} distinct"
        for k, (a, b) in enumerate(zip(VOCAB_LIST, ref)):
            if a != b:
                return f"vocab-id-changed | position {k} holds {a!r}, the published layout has {b!r}"
        if list(VOCAB_LIST[:11]) != list(SPECIAL_TOKENS.values()):
            return "vocab-special-first | special tokens are not the first block"
        if any(VOCAB_TOKEN_TO_INDEX[t] != k for k, t in enumerate(VOCAB_LIST)) or len(VOCAB_TOKEN_TO_INDEX) != 4096:
            return "vocab-map-not-inverse | VOCAB_TOKEN_TO_INDEX is not the inverse of VOCAB_LIST"
        ut = VOCAB_LIST[1596:]
        exp = [f"({x},{y})" for m in range(50) for (x, y) in _shell(m)]
        if ut != exp:
            bad = next(i for i, (a, b) in enumerate(zip(ut, exp)) if a != b)
            return f"vocab-ut-order | coordinate block position {1596 + bad}: {ut[bad]} expected {exp[bad]} (corner-first)"
        return None
    if what == "prefix":
        prev = []
        for n in range(1, 51):
            cur_ = corner_first_ndindex(n)
            if len(cur_) != n * n or len(set(cur_)) != n * n or set(cur_) != {(i, j) for i in range(n) for j in range(n)}:
                return f"corner-first-not-permutation | n={n}"
            if cur_[: len(prev)] != prev:
                return f"corner-first-prefix | corner_first_ndindex({n - 1}) is not a prefix of corner_first_ndindex({n})"
            prev = cur_
        return None
    if what == "legacy":
        mode = TokenizationMode[job["mode"]]
        prev = None
        # a vocabulary is a fixed function of (mode, max_grid_size): it must not depend on which other vocabularies were
        # built before in the process - sizes are visited ascending, then descending, then in a scrambled order
        order = list(range(1, 51)) + list(range(50, 0, -1)) + [12, 5, 3, 1, 7, 12, 2, 50, 9, 10, 4]
        seen = {}
        for pos, g in enumerate(order):
            t = MazeTokenizer(tokenization_mode=mode, max_grid_size=g)
            arr = list(t.token_arr)
            if g in seen and arr != seen[g]:
                return f"vocab-depends-on-history:MazeTokenizer({mode.name},g={g}) | the vocabulary differs from the one built earlier in the same process"
            seen.setdefault(g, arr)
            if pos >= 50:
                prev = None
            if len(set(arr)) != len(arr):
                return f"vocab-duplicates:MazeTokenizer({mode.name},g={g}) | duplicates"
            if any(t.tokenizer_map[tok] != k for k, tok in enumerate(arr)) or len(t.tokenizer_map) != len(arr):
                return f"vocab-not-inverse:MazeTokenizer({mode.name},g={g}) | map is not the inverse of the list"
            if arr[:11] != list(SPECIAL_TOKENS.values()):
                return f"legacy-special-first:{mode.name} | g={g}"
            if mode.name == "AOTP_UT_rasterized" and arr[11:] != [f"({i},{j})" for i in range(g) for j in range(g)]:
                return f"legacy-rowmajor | AOTP_UT_rasterized g={g} is not in row-major order"
            if mode.name == "AOTP_UT_uniform":
                if len(arr) != 11 + g * g:
                    return f"legacy-uniform-size | g={g}"
                if prev is not None and arr[: len(prev)] != prev:
                    return f"legacy-uniform-prefix | vocabulary for g={g - 1} is not a prefix of the vocabulary for g={g}"
                prev = arr
            if mode.name == "AOTP_CTT_indexed" and arr[11:] != ["(", ",", ")"] + [str(i) for i in range(g)]:
                return f"legacy-ctt-layout | g={g}"
        return None
    raise AssertionError(what)


def _shell(m):
    """independent statement of the corner-first order inside shell max(x,y)==m:
    cells sorted by (x, y) if x is even else by (y, x); ties keep row-major order"""
    cells = [(x, y) for x in range(m + 1) for y in range(m + 1) if max(x, y) == m]
    return sorted(cells, key=lambda p: p if p[0] % 2 == 0 else (p[1], p[0]))


def _run_tables(job):
    def run(ctx, pinned=None):
        p = _table_problems(job)
        ctx.notes["problem"] = p
        return [(f"constant tables: {job['what']} {job.get('mode', '')}", z3.BoolVal(p is None))]

    return run


def _replay_tables(job, inputs, notes):
    return _table_problems(job)


# ------------------------------------------------------------------------------------------ jobs
WINDOWS = [[-65540, -65532], [-4100, -4092], [-5, 5], [4090, 4100], [65530, 65540], [69630, 69634], [2 ** 31 - 3, 2 ** 31 + 3], [2 ** 32 - 3, 2 ** 32 + 3],
           [-(2 ** 31) - 3, -(2 ** 31) + 3], [2 ** 63 - 2, 2 ** 63 + 2], [255, 258], [32766, 32770]]


def jobs(tier, seed):
    q = tier == "quick"
    out = [dict(h="sortkey", mode="shell"), dict(h="sortkey", mode="total")]
    # the empty sequence is a sequence over the vocabulary too
    out.append(dict(h="decode", tok="modular", L=0))
    for mode_, g_ in (("AOTP_UT_uniform", 3), ("AOTP_UT_rasterized", 2), ("AOTP_CTT_indexed", 4)):
        out.append(dict(h="decode", tok=mode_, g=g_, L=0))
    out.append(dict(h="decode", tok="modular", L=1, max_seconds=3300))
    out.append(dict(h="decode", tok="AOTP_UT_uniform", g=3, L=2))
    out.append(dict(h="decode", tok="AOTP_UT_rasterized", g=2, L=2))
    out.append(dict(h="decode", tok="AOTP_CTT_indexed", g=4, L=2))
    for w in WINDOWS:
        out.append(dict(h="decode", tok="modular", L=1, window=w))
        out.append(dict(h="decode", tok="AOTP_UT_uniform", g=5, L=1, window=w))
    if not q:
        out.append(dict(h="decode", tok="AOTP_UT_uniform", g=50, L=1, max_seconds=3300))
        out.append(dict(h="decode", tok="AOTP_CTT_indexed", g=50, L=2, max_seconds=3300))
        for w in [[-3, 3], [4093, 4098]]:
            out.append(dict(h="decode", tok="modular", L=2, window=w, max_seconds=3300))
    out.append(dict(h="encode", tok="modular", max_seconds=3300))
    for mode, g in [("AOTP_UT_uniform", 4), ("AOTP_UT_rasterized", 3), ("AOTP_CTT_indexed", 5)] + ([] if q else [("AOTP_UT_uniform", 50), ("AOTP_UT_rasterized", 50), ("AOTP_CTT_indexed", 50)]):
        out.append(dict(h="encode", tok=mode, g=g))
    for tokspec in [dict(tok="modular"), dict(tok="AOTP_CTT_indexed", g=13), dict(tok="AOTP_UT_uniform", g=3)]:
        for first in range(len(_SHAPES)):
            out.append(dict(h="sequences", first=first, maxlen=4 if q else 5, **tokspec))
    out.append(dict(h="tables", what="modular_layout"))
    out.append(dict(h="tables", what="prefix"))
    for mode in ("AOTP_UT_uniform", "AOTP_UT_rasterized", "AOTP_CTT_indexed"):
        out.append(dict(h="tables", what="legacy", mode=mode))
    out.append(dict(_alias.ALIAS_JOB))  # results must not alias library state, arguments or each other (props/alias_common.py)
    out[0]["twin"] = True
    return out


# ------------------------------------------------------------------------------------------ sequences / string input
_SHAPES = ["(", ",", ")", "0", "1", "2", "12", "(1,2)", "(0,0)", "<-->", ";", "<PATH_START>", "+1", "-"]


def _alphabet(tok):
    arr = set(tok.token_arr)
    return [t for t in _SHAPES if t in arr]


def _seq_problem(job, first_only=None):
    """encode / decode on token sequences given as lists and as space-joined strings: exact inverses, nothing re-tokenised.
    Sequences: every word of length <= maxlen over an alphabet of token shapes that could interact when joined."""
    import itertools as it

    from maze_dataset.tokenization.maze_tokenizer import TokenError

    tok, n = _tokenizer(job)
    name = "MazeTokenizerModular" if job["tok"] == "modular" else f"MazeTokenizer({job['tok']},g={job['g']})"
    alpha = _alphabet(tok)
    idx = {t: list(tok.token_arr).index(t) for t in alpha}
    first = alpha[job["first"] % len(alpha)]
    count = 0
    for L in range(1, job["maxlen"] + 1):
        for rest in it.product(alpha, repeat=L - 1):
            toks = [first, *rest]
            want = [idx[t] for t in toks]
            joined = " ".join(toks)
            count += 1
            for form, arg in (("list", toks), ("string", joined)):
                try:
                    got = tok.encode(arg)
                except Exception as e:
                    return count, f"encode-sequence-raises:{name} | encode({arg!r}) raised {type(e).__name__}: {str(e)[:80]} for tokens that are all in the vocabulary"
                if got != want:
                    return count, f"encode-sequence-wrong:{name} | encode({arg!r}) = {got}, the tokens' positions are {want}"
            if tok.decode(want) != toks or tok.decode(want, joined_tokens=True) != joined:
                return count, f"decode-sequence-wrong:{name} | decode({want}) = {tok.decode(want)} / {tok.decode(want, joined_tokens=True)!r}"
    if job["first"] == 0:
        arr = set(tok.token_arr)
        for bad in ("(1, 2)", "( 1,2)", "(1 ,2)", "<PATH_START><PATH_END>", "( 1", "1,2"):
            if all(p in arr for p in bad.split()):
                continue
            try:
                got = tok.encode(bad)
                return count, f"encode-accepts-unknown:{name} | encode({bad!r}) returned {got} although {[p for p in bad.split() if p not in arr]} are not tokens"
            except TokenError:
                pass
            except Exception as e:
                return count, f"encode-wrong-error:{name} | {type(e).__name__} for {bad!r}"
    return count, None


def _run_seq(job):
    def run(ctx, pinned=None):
        ctx.inputs["dummy"] = z3.IntVal(0)
        count, msg = _seq_problem(job)
        ctx.notes["sequences"] = count
        return [(f"encode/decode are exact inverses on {count} token sequences given as lists and as joined strings", z3.BoolVal(msg is None))]

    return run


def _replay_seq(job, inputs, notes):
    return _seq_problem(job)[1]


_PATCH = dict(np_modules=["maze_dataset.tokenization.maze_tokenizer"], stub_ascii=False)
HARNESSES = {
    "sequences": dict(run=_run_seq, replay=_replay_seq, patch=dict(np_modules=[], stub_ascii=False), validate_every=0),
    "sortkey": dict(run=_run_sortkey, replay=_replay_sortkey, patch=dict(np_modules=[], stub_ascii=False)),
    "decode": dict(run=_run_decode, replay=_replay_decode, patch=_PATCH),
    "encode": dict(run=_run_encode, replay=_replay_encode, patch=_PATCH),
    "tables": dict(run=_run_tables, replay=_replay_tables, patch=dict(np_modules=[], stub_ascii=False)),
}
HARNESSES["alias"] = _alias.alias_harness("C14")

META = dict(
    functions=["utils.corner_first_ndindex (the key= function it passes to sorted)", "MazeTokenizerModular.encode/decode", "MazeTokenizer.encode/decode/_token_arr/"
               "_tokenizer_map", "constants._VOCAB_FIELDS -> VOCAB_LIST / VOCAB_TOKEN_TO_INDEX", "_NDINDEX_FUNC_MAP"],
    bounds=dict(
        quick="sort-key lemma over ALL pairs of cells in N^2 (unbounded integers); decode with symbolic ids over ALL integers (sequence length 1 for the "
              "4096-token vocabulary, 2 for small legacy vocabularies) plus 12 windows around 8/16/32/64-bit wrap boundaries; encode/decode over every "
              "vocabulary position; every word of length <= 4 over 14 token shapes ('(' ',' ')' digits, coordinate tokens, delimiters) as list and as joined string; constant tables: all 4096 modular positions against the pinned published layout, legacy vocabularies for 3 modes x "
              "max_grid_size 1..50, corner-first prefix for n=1..50",
        thorough="adds max_grid_size=50 legacy decode/encode and modular id pairs in two windows",
    ),
    degenerate=dict(tables="constant tables: concrete evaluation, no symbolic input", sequences="concrete enumeration of short token words (strings are not symbolic in this engine)", encode="position k is forked over the whole table (exhaustive)",
                    decode="ids inside the vocabulary are forked (list indexing needs a concrete int); ids outside are decided symbolically over all integers"),
    stubs=stubs_description(np_modules=["maze_dataset.tokenization.maze_tokenizer"], stub_ascii=False) + [
        "VOCAB_LIST / token_arr -> list subclass whose indexing with a symbolic int raises IndexError on the out-of-range path instead of enumerating it",
        "sorted in maze_dataset.utils -> capturing wrapper for one call (to obtain the key function)"],
    outside=["the lifting from the sort-key lemma to the prefix property relies on sorted() being stable and np.ndindex being row-major (trusted; "
             "cross-checked concretely for n <= 50)", "ndim != 2", "id sequences longer than 2", "token sequences beyond the enumerated words"],
    assumptions=["the published layout is the pinned list refs/vocab_list_4096.json (taken from the repository at the pinned commit) together with the "
                 "structural rules: special tokens first, coordinate block corner-first"],
)

META.setdefault("degenerate", {})["alias"] = _alias.ALIAS_META
