"""C17 - rasterized input/target images show the problem and only the solution."""

from __future__ import annotations

import itertools
import types

import numpy as np
import z3

from props.c10 import COMBOS, END, OPEN, PATH, START, WALL, _concrete_expected, _expected_pixel, _sym_path
from symx.core import Inconclusive, SBool, SInt, cur, fresh_int, is_sym, zb, zi
from symx.harness import SNP, conn_from_cex, stubs_description, sym_connection_list
from symx.snp import SArr

from props import alias_common as _alias

ID = "C17"
COLORS = [WALL, OPEN, START, END, PATH]


# ---------------------------------------------------------------------------------- z3-level oracle
def _c3(col):
    return tuple(z3.IntVal(v) for v in col)


def _ite3(c, a, b):
    return tuple(z3.If(c, p, q) for p, q in zip(a, b))


def _is(px, col):
    return z3.And(*[p == v for p, v in zip(px, col)])


def _oracle_images(pic, H, W, ric, ext, eao):
    """pic[y][x]: 3 z3 terms.  returns (input, target) as dicts (y,x)->3 terms plus their shape"""
    inp, tgt = {}, {}
    for y in range(H):
        for x in range(W):
            p = pic[y][x]
            inp[(y, x)] = _ite3(_is(p, PATH), _c3(OPEN), p)
            t = _ite3(_is(p, OPEN), _c3(WALL), p)
            t = _ite3(_is(p, PATH), _c3(OPEN), t)
            if eao:
                t = _ite3(z3.Or(_is(p, START), _is(p, END)), _c3(OPEN), t)
            tgt[(y, x)] = t

    def remove_isolated(img):
        out = {}
        for y in range(H):
            for x in range(W):
                nb = [(y, x + 1), (y, x - 1), (y + 1, x), (y - 1, x)]
                walls = [_is(img[q], WALL) if q in img else z3.BoolVal(True) for q in nb]
                iso = z3.And(z3.Not(_is(img[(y, x)], WALL)), *walls)
                out[(y, x)] = _ite3(iso, _c3(WALL), img[(y, x)])
        return out

    if ric:
        inp, tgt = remove_isolated(inp), remove_isolated(tgt)
    shape = (H, W)
    if ext:
        def extend(img):
            out = {}
            for y in range(2 * H + 2):
                for x in range(2 * W + 2):
                    if y == 0 or x == 0 or y == 2 * H + 1 or x == 2 * W + 1:
                        out[(y, x)] = _c3(WALL)
                    else:
                        out[(y, x)] = img[((y - 1) // 2, (x - 1) // 2)]
            return out

        inp, tgt = extend(inp), extend(tgt)
        shape = (2 * H + 2, 2 * W + 2)
    return inp, tgt, shape


def _cmp_obligations(res, inp, tgt, shape, label=""):
    obs = [(f"{label}result is (input, target) of shape {shape}+(3,)", z3.BoolVal(tuple(res.shape) == (2,) + tuple(shape) + (3,)))]
    if tuple(res.shape) != (2,) + tuple(shape) + (3,):
        return obs
    ci, ct = [], []
    for (y, x), exp in inp.items():
        for ch in range(3):
            ci.append(zi(res[0, y, x, ch]) == exp[ch])
            ct.append(zi(res[1, y, x, ch]) == tgt[(y, x)][ch])
    obs.append((f"{label}input image: picture with the solution hidden (path shown open, endpoints kept), post-processed as configured", z3.And(*ci)))
    obs.append((f"{label}target image: wall except the solution (open) and endpoints (kept or opened), post-processed as configured", z3.And(*ct)))
    return obs


def _torch_stub():
    return types.SimpleNamespace(tensor=lambda x, *a, **k: x, stack=lambda xs, *a, **k: SNP.stack(list(xs)), Tensor=object)


# --------------------------------------------------------------- (a) fully symbolic picture
class _FakeMaze:
    def __init__(self, px):
        self._px = px

    def as_pixels(self, show_endpoints=True, show_solution=True):
        assert show_endpoints and show_solution
        return self._px.copy()


def _run_symbolic_picture(job):
    H, W = job["H"], job["W"]
    ric, ext, eao = job["opts"]

    def run(ctx, pinned=None):
        import maze_dataset.dataset.rasterized as rz

        sel = [[fresh_int(f"s_{y}_{x}", 0, 4) for x in range(W)] for y in range(H)]
        pic = [[None] * W for _ in range(H)]
        px = SNP.zeros((H, W, 3), dtype=np.uint8)
        for y in range(H):
            for x in range(W):
                v = ctx.inputs[f"s_{y}_{x}"]
                chans = []
                for ch in range(3):
                    e = z3.IntVal(COLORS[4][ch])
                    for k in (3, 2, 1, 0):
                        e = z3.If(v == k, z3.IntVal(COLORS[k][ch]), e)
                    chans.append(e)
                    px.o[y, x, ch] = SInt(e)
                pic[y][x] = tuple(chans)
        old = rz.torch
        rz.torch = _torch_stub()
        try:
            fm = _FakeMaze(px)
            res = rz.process_maze_rasterized_input_target(fm, remove_isolated_cells=ric, extend_pixels=ext, endpoints_as_open=eao)
            # no hidden state: the same maze processed with the opposite options in between, then again with these options
            rz.process_maze_rasterized_input_target(fm, remove_isolated_cells=not ric, extend_pixels=not ext, endpoints_as_open=not eao)
            res2 = rz.process_maze_rasterized_input_target(fm, remove_isolated_cells=ric, extend_pixels=ext, endpoints_as_open=eao)
        finally:
            rz.torch = old
        inp, tgt, shape = _oracle_images(pic, H, W, ric, ext, eao)
        return _cmp_obligations(res, inp, tgt, shape) + _cmp_obligations(res2, inp, tgt, shape, label="processed again after other options: ")

    return run


def _concrete_oracle(pic, ric, ext, eao):
    """numpy restatement of the documented behaviour (independent of the repository code)"""
    pic = np.asarray(pic, dtype=np.uint8)
    H, W = pic.shape[:2]
    is_ = lambda img, col: (img == np.array(col, dtype=np.uint8)).all(-1)
    inp, tgt = pic.copy(), pic.copy()
    inp[is_(pic, PATH)] = OPEN
    tgt[is_(pic, OPEN)] = WALL
    tgt[is_(pic, PATH)] = OPEN
    if eao:
        tgt[is_(pic, START) | is_(pic, END)] = OPEN

    def rem(img):
        out = img.copy()
        w = is_(img, WALL)
        for y in range(H):
            for x in range(W):
                nb = [(y, x + 1), (y, x - 1), (y + 1, x), (y - 1, x)]
                if not w[y, x] and all(not (0 <= a < H and 0 <= b < W) or w[a, b] for a, b in nb):
                    out[y, x] = WALL
        return out

    if ric:
        inp, tgt = rem(inp), rem(tgt)
    if ext:
        def extend(img):
            out = np.zeros((2 * H + 2, 2 * W + 2, 3), dtype=np.uint8)
            for y in range(H):
                for x in range(W):
                    out[1 + 2 * y:3 + 2 * y, 1 + 2 * x:3 + 2 * x] = img[y, x]
            return out

        inp, tgt = extend(inp), extend(tgt)
    return inp, tgt


def _replay_symbolic_picture(job, inputs, notes):
    import maze_dataset.dataset.rasterized as rz

    H, W = job["H"], job["W"]
    ric, ext, eao = job["opts"]
    pic = np.array([[COLORS[inputs.get(f"s_{y}_{x}", 0)] for x in range(W)] for y in range(H)], dtype=np.uint8)
    res = rz.process_maze_rasterized_input_target(_FakeMaze(pic), remove_isolated_cells=ric, extend_pixels=ext, endpoints_as_open=eao).numpy()
    inp, tgt = _concrete_oracle(pic, ric, ext, eao)
    names = "".join("#OSEX"[inputs.get(f"s_{y}_{x}", 0)] + ("/" if x == W - 1 else "") for y in range(H) for x in range(W))
    if res.shape[1:] != inp.shape or not np.array_equal(res[0], inp):
        return f"raster-input-wrong | options (remove_isolated={ric}, extend={ext}, endpoints_as_open={eao}) picture {names}"
    if not np.array_equal(res[1], tgt):
        return f"raster-target-wrong | options (remove_isolated={ric}, extend={ext}, endpoints_as_open={eao}) picture {names}"
    return None


# --------------------------------------------------------------- (b) post-processing on arbitrary RGB
def _run_postproc(job):
    H, W, which = job["H"], job["W"], job["which"]

    def run(ctx, pinned=None):
        import maze_dataset.dataset.rasterized as rz
        import maze_dataset.maze.lattice_maze as lm

        px = SNP.zeros((H, W, 3), dtype=np.uint8)
        pic = [[None] * W for _ in range(H)]
        for y in range(H):
            for x in range(W):
                chans = []
                for ch in range(3):
                    v = fresh_int(f"p_{y}_{x}_{ch}", 0, 255)
                    px.o[y, x, ch] = v
                    chans.append(ctx.inputs[f"p_{y}_{x}_{ch}"])
                pic[y][x] = tuple(chans)
        if which == "remove_isolated":
            res = lm._remove_isolated_cells(px)
            conds = []
            for y in range(H):
                for x in range(W):
                    nb = [(y, x + 1), (y, x - 1), (y + 1, x), (y - 1, x)]
                    walls = [_is(pic[a][b], WALL) if (0 <= a < H and 0 <= b < W) else z3.BoolVal(True) for a, b in nb]
                    iso = z3.And(z3.Not(_is(pic[y][x], WALL)), *walls)
                    for ch in range(3):
                        conds.append(zi(res[y, x, ch]) == z3.If(iso, 0, pic[y][x][ch]))
            return [("same shape", z3.BoolVal(tuple(res.shape) == (H, W, 3))),
                    ("a non-wall pixel with no non-wall 4-neighbour becomes wall, everything else is unchanged", z3.And(*conds)),
                    ("input image not modified", z3.And(*[zi(px[y, x, ch]) == pic[y][x][ch] for y in range(H) for x in range(W) for ch in range(3)]))]
        res = rz._extend_pixels(px)
        conds = []
        ok_shape = tuple(res.shape) == (2 * H + 2, 2 * W + 2, 3)
        if ok_shape:
            for y in range(2 * H + 2):
                for x in range(2 * W + 2):
                    border = y == 0 or x == 0 or y == 2 * H + 1 or x == 2 * W + 1
                    for ch in range(3):
                        conds.append(zi(res[y, x, ch]) == (z3.IntVal(0) if border else pic[(y - 1) // 2][(x - 1) // 2][ch]))
        return [("shape (2H+2, 2W+2, 3)", z3.BoolVal(ok_shape)), ("every pixel doubled, one-pixel wall frame", z3.And(*conds) if conds else z3.BoolVal(ok_shape))]

    return run


def _replay_postproc(job, inputs, notes):
    import maze_dataset.dataset.rasterized as rz
    import maze_dataset.maze.lattice_maze as lm

    H, W, which = job["H"], job["W"], job["which"]
    pic = np.array([[[inputs.get(f"p_{y}_{x}_{ch}", 0) for ch in range(3)] for x in range(W)] for y in range(H)], dtype=np.uint8)
    if which == "remove_isolated":
        res = lm._remove_isolated_cells(pic.copy())
        w = (pic == 0).all(-1)
        exp = pic.copy()
        for y in range(H):
            for x in range(W):
                nb = [(y, x + 1), (y, x - 1), (y + 1, x), (y - 1, x)]
                if not w[y, x] and all(not (0 <= a < H and 0 <= b < W) or w[a, b] for a, b in nb):
                    exp[y, x] = 0
        if res.shape != exp.shape or not np.array_equal(res, exp):
            return f"remove_isolated-wrong | image {pic.tolist()} -> {res.tolist()}"
        return None
    res = rz._extend_pixels(pic.copy())
    exp = np.zeros((2 * H + 2, 2 * W + 2, 3), dtype=np.uint8)
    for y in range(H):
        for x in range(W):
            exp[1 + 2 * y:3 + 2 * y, 1 + 2 * x:3 + 2 * x] = pic[y, x]
    if res.shape != exp.shape or not np.array_equal(res, exp):
        return f"extend_pixels-wrong | image {pic.tolist()}"
    return None


# --------------------------------------------------------------- (c) integration with the real renderer
def _run_integration(job):
    r, c = job["r"], job["c"]
    ric, ext, eao = job["opts"]

    def run(ctx, pinned=None):
        import maze_dataset.dataset.rasterized as rz
        from maze_dataset.maze.lattice_maze import SolvedMaze
        from symx.oracles import Lattice

        cl, lat = sym_connection_list(r, c)
        sol = _sym_path(ctx, lat, tuple(job["s"]), job["L"])
        ctx.notes["sol"] = [list(p) for p in sol]
        m = SolvedMaze(connection_list=cl, solution=np.array(sol))
        old = rz.torch
        rz.torch = _torch_stub()
        try:
            if job.get("history"):
                # the same maze object was rasterized before with the opposite options (result discarded)
                rz.process_maze_rasterized_input_target(m, remove_isolated_cells=not ric, extend_pixels=not ext, endpoints_as_open=not eao)
            res = rz.process_maze_rasterized_input_target(m, remove_isolated_cells=ric, extend_pixels=ext, endpoints_as_open=eao)
        finally:
            rz.torch = old
        H, W = 2 * r + 1, 2 * c + 1
        pic = [[_expected_pixel(lat, "SolvedMaze", sol[0], sol[-1], sol, True, True, y, x) for x in range(W)] for y in range(H)]
        inp, tgt, shape = _oracle_images(pic, H, W, ric, ext, eao)
        return _cmp_obligations(res, inp, tgt, shape)

    return run


def _replay_integration(job, inputs, notes):
    import maze_dataset.dataset.rasterized as rz
    from maze_dataset.maze.lattice_maze import SolvedMaze

    r, c = job["r"], job["c"]
    ric, ext, eao = job["opts"]
    cl = conn_from_cex(inputs, r, c)
    sol = [tuple(p) for p in notes["sol"]]
    m = SolvedMaze(connection_list=cl, solution=np.array(sol))
    if job.get("history"):
        rz.process_maze_rasterized_input_target(m, remove_isolated_cells=not ric, extend_pixels=not ext, endpoints_as_open=not eao)
    res = rz.process_maze_rasterized_input_target(m, remove_isolated_cells=ric, extend_pixels=ext, endpoints_as_open=eao).numpy()
    pic = _concrete_expected(cl, "SolvedMaze", sol[0], sol[-1], sol, True, True)
    inp, tgt = _concrete_oracle(pic, ric, ext, eao)
    tag = ("after the same maze object was rasterized with the opposite options; " if job.get("history") else "") + f"options (remove_isolated={ric}, extend={ext}, endpoints_as_open={eao}) solution={sol} connection_list={cl.astype(int).tolist()}"
    if res.shape[1:] != inp.shape or not np.array_equal(res[0], inp):
        return f"raster-input-wrong | {tag}"
    if not np.array_equal(res[1], tgt):
        return f"raster-target-wrong | {tag}"
    return None


# --------------------------------------------------------------- (d) dataset items and batches
def _small_dataset():
    from maze_dataset import MazeDataset, MazeDatasetConfig
    from maze_dataset.maze.lattice_maze import SolvedMaze

    mazes = []
    a = np.zeros((2, 2, 2), dtype=bool)
    a[0, 0, 0] = a[1, 0, 0] = True
    mazes.append(SolvedMaze(connection_list=a.copy(), solution=np.array([(1, 0), (0, 0), (0, 1)])))
    b = np.zeros((2, 2, 2), dtype=bool)
    b[1, 1, 0] = True
    mazes.append(SolvedMaze(connection_list=b.copy(), solution=np.array([(1, 0), (1, 1)])))
    c = np.zeros((2, 2, 2), dtype=bool)
    c[0, 0, 1] = c[1, 0, 0] = c[1, 1, 0] = True
    mazes.append(SolvedMaze(connection_list=c.copy(), solution=np.array([(0, 0)])))
    return MazeDataset(MazeDatasetConfig(name="c17", grid_n=2, n_mazes=3), mazes)


def _run_batch(job):
    n_idx = job["n_idx"]
    ric, ext, eao = job["opts"]

    def run(ctx, pinned=None):
        from maze_dataset.dataset.rasterized import RasterizedMazeDataset, process_maze_rasterized_input_target

        base = _small_dataset()
        ds = RasterizedMazeDataset.from_base_MazeDataset(base, added_params=dict(remove_isolated_cells=ric, extend_pixels=ext, endpoints_as_open=eao))
        obs = [("from_base_MazeDataset keeps the mazes in order", z3.BoolVal(len(ds) == 3 and all(x is y for x, y in zip(ds.mazes, base.mazes)))),
               ("options stored in the configuration", z3.BoolVal((ds.cfg.remove_isolated_cells, ds.cfg.extend_pixels, ds.cfg.endpoints_as_open) == (ric, ext, eao)))]
        if n_idx is None:
            idxs, batch = [0, 1, 2], ds.get_batch(None)
        else:
            idxs = [ctx.choose(3) for _ in range(n_idx)]
            for k, v in enumerate(idxs):
                ctx.inputs[f"idx{k}"] = z3.IntVal(v)
            batch = ds.get_batch(list(idxs))
        exp = [process_maze_rasterized_input_target(base.mazes[i], ric, ext, eao).numpy() for i in idxs]
        b = batch.numpy()
        ok = b.shape[:2] == (2, len(idxs)) and all(np.array_equal(b[0, k], exp[k][0]) and np.array_equal(b[1, k], exp[k][1]) for k in range(len(idxs)))
        obs.append(("batch stacks inputs then targets in index order", z3.BoolVal(bool(ok))))
        item = ds[idxs[0]].numpy()
        obs.append(("dataset item is (input, target) of that maze under the configured options", z3.BoolVal(np.array_equal(item, exp[0]))))
        return obs

    return run


def _replay_batch(job, inputs, notes):
    from maze_dataset.dataset.rasterized import RasterizedMazeDataset, process_maze_rasterized_input_target

    ric, ext, eao = job["opts"]
    base = _small_dataset()
    ds = RasterizedMazeDataset.from_base_MazeDataset(base, added_params=dict(remove_isolated_cells=ric, extend_pixels=ext, endpoints_as_open=eao))
    idxs = [0, 1, 2] if job["n_idx"] is None else [inputs.get(f"idx{k}", 0) for k in range(job["n_idx"])]
    b = ds.get_batch(None if job["n_idx"] is None else idxs).numpy()
    exp = [process_maze_rasterized_input_target(base.mazes[i], ric, ext, eao).numpy() for i in idxs]
    if (ds.cfg.remove_isolated_cells, ds.cfg.extend_pixels, ds.cfg.endpoints_as_open) != (ric, ext, eao):
        return f"raster-options-lost | cfg has {(ds.cfg.remove_isolated_cells, ds.cfg.extend_pixels, ds.cfg.endpoints_as_open)} for {(ric, ext, eao)}"
    if b.shape[:2] != (2, len(idxs)) or not all(np.array_equal(b[0, k], exp[k][0]) and np.array_equal(b[1, k], exp[k][1]) for k in range(len(idxs))):
        return f"raster-batch-order | get_batch({idxs}) does not stack items in index order"
    if not np.array_equal(ds[idxs[0]].numpy(), exp[0]):
        return f"raster-item-wrong | dataset[{idxs[0]}]"
    return None


# ------------------------------------------------------------------------------------------ jobs
def jobs(tier, seed):
    q = tier == "quick"
    out = []
    opts = list(itertools.product([True, False], repeat=3))
    sizes = [(1, 1), (2, 3), (3, 3), (5, 5), (7, 7)] if q else [(1, 1), (1, 4), (2, 3), (3, 3), (5, 5), (7, 7), (9, 9), (5, 11)]
    for H, W in sizes:
        for o in opts:
            if q and H * W >= 49 and o not in [(True, True, False), (True, False, True), (False, True, True)]:
                continue
            out.append(dict(h="symbolic_picture", H=H, W=W, opts=list(o), max_seconds=3300))
    # pictures of larger mazes (5x5 cells; thorough: 7x10 and 10x10 cells, the upper grid size the property names): one path each
    for (H, W), os_ in ([((11, 11), [(True, True, False), (False, True, True)])] if q else
                        [((11, 11), opts), ((15, 21), [(True, True, True), (True, False, False)]), ((21, 21), [(True, True, False), (False, True, True)])]):
        for o in os_:
            out.append(dict(h="symbolic_picture", H=H, W=W, opts=list(o), max_seconds=3300))
    for H, W in ([(1, 1), (2, 2), (3, 4), (5, 5)] if q else [(1, 1), (1, 3), (2, 2), (3, 4), (5, 5), (7, 7)]):
        out.append(dict(h="postproc", H=H, W=W, which="remove_isolated", max_seconds=3300))
        out.append(dict(h="postproc", H=H, W=W, which="extend", max_seconds=3300))
    for r, c in ([(2, 2), (2, 3)] if q else [(2, 2), (2, 3), (3, 3)]):
        starts = [(0, 0), (r - 1, c - 1)] if q else [(i, j) for i in range(r) for j in range(c)]
        for s in starts:
            for L in range(1, 4 if q else 5):
                for o in (opts if not q else [(True, True, False), (True, False, True), (False, False, False)]):
                    out.append(dict(h="integration", r=r, c=c, s=list(s), L=L, opts=list(o), max_seconds=3300))
                    if (r, c) == (2, 2) and (not q or L == 2):
                        out.append(dict(h="integration", r=r, c=c, s=list(s), L=L, opts=list(o), history=True, max_seconds=3300))
    for o in (opts if not q else [(True, True, False), (False, True, True)]):
        for n_idx in (None, 1, 2, 3):
            out.append(dict(h="batch", n_idx=n_idx, opts=list(o)))
    out.append(dict(_alias.ALIAS_JOB))  # results must not alias library state, arguments or each other (props/alias_common.py)
    out[0]["twin"] = True
    return out


def _PATCH():
    import maze_dataset.maze.lattice_maze as lm
    from symx.merge import merged

    mods = ["maze_dataset.maze.lattice_maze", "maze_dataset.dataset.rasterized"]
    new, n = merged(lm.LatticeMaze._as_pixels_bw)
    if n == 0:
        return dict(np_modules=mods, stub_ascii=False)
    return dict(np_modules=mods, stub_ascii=False, extra={("maze_dataset.maze.lattice_maze", "LatticeMaze"): {"_as_pixels_bw": new}})


_NOPATCH = dict(np_modules=[], stub_ascii=False)
HARNESSES = {
    "symbolic_picture": dict(run=_run_symbolic_picture, replay=_replay_symbolic_picture, patch=_PATCH),
    "postproc": dict(run=_run_postproc, replay=_replay_postproc, patch=_PATCH),
    "integration": dict(run=_run_integration, replay=_replay_integration, patch=_PATCH),
    "batch": dict(run=_run_batch, replay=_replay_batch, patch=_NOPATCH),
}
HARNESSES["alias"] = _alias.alias_harness("C17")

META = dict(
    functions=["rasterized.process_maze_rasterized_input_target", "lattice_maze._remove_isolated_cells", "rasterized._extend_pixels",
               "RasterizedMazeDataset.__getitem__/get_batch/from_base_MazeDataset", "SolvedMaze.as_pixels (integration harness)"],
    bounds=dict(
        quick="a fully symbolic picture (each pixel any of the 5 colours) up to 7x7 px for the 8 option combinations (3 combinations at 7x7) and 11x11 px (5x5 cells) for 2 combinations: one path per "
              "combination covers all 5^(H*W) pictures; post-processing on images with arbitrary RGB channels (0..255) up to 5x5 px; integration with the "
              "real renderer on 2x2, 2x3 mazes (all bits symbolic, every simple solution of 1..3 cells from two corners); batches over index lists of length <=3",
        thorough="pictures up to 9x9, 5x11 and 11x11 px for all 8 combinations, 15x21 and 21x21 px (10x10 cells) for 2 combinations each, RGB images up to 7x7, integration on 3x3 from every cell with solutions up to 4 cells",
    ),
    degenerate=dict(batch="concrete mazes; index lists forked (real torch tensors cannot hold symbolic values)"),
    stubs=stubs_description(np_modules=["maze_dataset.maze.lattice_maze", "maze_dataset.dataset.rasterized"], stub_ascii=False) + [
        "torch.tensor / torch.stack in rasterized.py -> identity / shim stack (symbolic harnesses only)",
        "maze argument of process_maze_rasterized_input_target -> stand-in whose as_pixels() returns the symbolic picture (harness a)",
        "LatticeMaze._as_pixels_bw -> state-merged version rebuilt from its current source (integration harness)"],
    outside=["pictures larger than the bound", "colours other than the five maze colours in harness (a) (arbitrary RGB is covered for the two post-processing functions)",
             "from_config_augmented (goes through dataset generation and the cache)"],
    assumptions=["the picture handed to the rasterizer is what SolvedMaze.as_pixels(True, True) returns (checked separately by C10 and by the integration harness)"],
)

META.setdefault("degenerate", {})["alias"] = _alias.ALIAS_META
