"""Shared plumbing for the tokenization properties (C06, C07): the RNG-as-input environment of the
tokenizers, symbolic / semi-symbolic maze construction, and small independent token parsers."""

from __future__ import annotations

import itertools

import numpy as np
import z3

from symx import concrete as C
from symx import rng as R
from symx.core import Inconclusive, PathAbort, SBool, SInt, cur, fresh_bool, fresh_int, is_sym, zb, zi
from symx.harness import SNP
from symx.oracles import Lattice
from symx.snp import SArr, make_module

FULL_FLIPS_UPTO = 4  # more independent coin flips than this are replaced by three representative patterns


class TokDraws(R._Draws):
    """draw source with an option to use representative outcomes only (three coin-flip patterns, three permutations)"""

    reps_only = False
    linked = False  # all representative choices of one execution share a single 3-way draw
    _link = None

    def rep_index(self, kind):
        if not self.linked:
            return int(self.int_in(0, 2, kind=kind))
        if self._link is None:
            self._link = int(self.int_in(0, 2, kind="linked-rep"))
        return self._link

    def perm(self, n):
        if n <= 1:
            return list(range(n))
        if not self.reps_only:
            return super().perm(n)
        reps = [list(range(n)), list(range(n - 1, -1, -1)), list(range(1, n)) + [0]]
        return reps[self.rep_index("perm-rep")]


class _RepMixin:
    """coin-flip style draws: all outcomes up to FULL_FLIPS_UPTO flips, else all-heads / all-tails / alternating"""

    def _pattern(self, n):
        k = self._d.rep_index("flip-pattern")
        if k == 0:
            return [False] * n
        if k == 1:
            return [True] * n
        return [bool(i % 2) for i in range(n)]


class TokNpRandom(R.SymNpRandom, _RepMixin):
    def rand(self, *shape):
        if len(shape) == 1 and (int(shape[0]) > FULL_FLIPS_UPTO or (self._d.reps_only and int(shape[0]) > 1)):
            return np.array([0.75 if f else 0.25 for f in self._pattern(int(shape[0]))])
        return super().rand(*shape)


class TokGenerator(R.SymGenerator, _RepMixin):
    def permuted(self, x, axis=None, out=None):
        if axis != 1 or x.ndim != 3 or x.shape[1] != 2:
            raise Inconclusive("Generator.permuted only modelled for axis=1 on (E,2,k) arrays")
        tgt = out if out is not None else x.copy()
        src = x.o.copy() if isinstance(x, SArr) else x.copy()
        slots = []
        for i in range(src.shape[0]):
            for j in range(src.shape[2]):
                a, b = src[i, 0, j], src[i, 1, j]
                same = (not is_sym(a)) and (not is_sym(b)) and a == b
                if not same:
                    slots.append((i, j))
        if len(slots) > FULL_FLIPS_UPTO or (self._d.reps_only and len(slots) > 1):
            flips = self._pattern(len(slots))
        else:
            flips = [bool(self._d.int_in(0, 1, kind="swap")) for _ in slots]
        for (i, j), f in zip(slots, flips):
            col = src[i, ::-1, j] if f else src[i, :, j]
            if isinstance(tgt, SArr):
                tgt.o[i, :, j] = col
            else:
                tgt[i, :, j] = col
        return tgt


class TokEnv:
    """installs the RNG-as-input stubs (symbolic, or scripted from a counterexample) and - in symbolic mode - the
    numpy shim into the modules the tokenizers run through"""

    def __init__(self, script=None, reps_only=False, linked=False):
        self.script = script
        self.reps_only = reps_only or linked
        self.linked = linked

    def __enter__(self):
        import maze_dataset.maze.lattice_maze as lm
        import maze_dataset.token_utils as tu
        import maze_dataset.tokenization.maze_tokenizer as mt

        d = TokDraws(dict(self.script) if self.script is not None else None)
        d.reps_only = self.reps_only
        d.linked = self.linked
        self.draws = d
        rnd, npr, gen = R.SymRandomModule(d), TokNpRandom(d), TokGenerator(d)
        self._saved = [(tu, "np", tu.np), (mt, "np", mt.np), (mt, "numpy_rng", mt.numpy_rng), (mt, "random", mt.random), (lm, "np", lm.np)]
        if self.script is None:
            tu.np = make_module(random=npr)
            mt.np = SNP
            lm.np = make_module(random=npr)
        else:
            tu.np = R.RealNpWithRandom(npr)
            lm.np = R.RealNpWithRandom(npr)
        mt.numpy_rng = gen
        mt.random = rnd
        return self

    def __exit__(self, *a):
        for obj, k, v in reversed(self._saved):
            setattr(obj, k, v)


STUBS = ["np -> symbolic shim in maze_dataset.token_utils, maze_dataset.tokenization.maze_tokenizer, maze_dataset.maze.lattice_maze",
         "np.random (token_utils), numpy_rng and random (maze_tokenizer) -> draws are inputs: every outcome of up to 4 coin flips / every permutation "
         "of up to 3 items, otherwise three representatives (all-heads, all-tails, alternating; identity, reversal, rotation)",
         "LatticeMaze.as_ascii -> constant string (only reached when building exception messages)"]


# ------------------------------------------------------------------------------------------------ mazes
def rowcol_precondition(lat: Lattice):
    """every row index and every column index occurs in some connection (the property's precondition for parsing back)"""
    n_r, n_c = lat.r, lat.c
    conds = []
    for i in range(n_r):
        conds.append(z3.Or(*[lat.bit[k] for k in lat.edge_idx if i in (lat.ends(k)[0][0], lat.ends(k)[1][0])]) if lat.edge_idx else z3.BoolVal(False))
    for j in range(n_c):
        conds.append(z3.Or(*[lat.bit[k] for k in lat.edge_idx if j in (lat.ends(k)[0][1], lat.ends(k)[1][1])]) if lat.edge_idx else z3.BoolVal(False))
    return z3.And(*conds)


def rowcol_ok(cl) -> bool:
    n = cl.shape[1]
    rows, cols = set(), set()
    for d in range(2):
        for i in range(n):
            for j in range(n):
                if cl[d, i, j]:
                    for (a, b) in ((i, j), (i + (d == 0), j + (d == 1))):
                        rows.add(a)
                        cols.add(b)
    return rows == set(range(n)) and cols == set(range(n))


def base_maze(n: int, kind: str, seed: int) -> np.ndarray:
    """deterministic concrete base maze built with the current generators (spanning tree / dfs+percolation)"""
    import random as _random

    from maze_dataset.generation.generators import LatticeMazeGenerators as G

    st_np, st_py = np.random.get_state(), _random.getstate()
    try:
        np.random.seed(seed)
        _random.seed(seed)
        if kind == "perc":
            m = G.gen_dfs_percolation(np.array([n, n]), p=0.3)
        else:
            m = G.gen_dfs(np.array([n, n]))
        return np.array(m.connection_list, dtype=bool)
    finally:
        np.random.set_state(st_np)
        _random.setstate(st_py)


def sym_maze_bits(ctx, n, base=None, sym_bits="all", prefix="c"):
    """(SArr bool[2,n,n], Lattice over the bit terms).  base: concrete array supplying the non-symbolic entries"""
    bits = {}
    arr = SNP.zeros((2, n, n), dtype=np.bool_)
    proto = Lattice(n, n, prefix)
    for k in proto.all_idx:
        if not proto.is_edge(k):
            bits[k] = z3.BoolVal(False)
            arr.o[k] = False
            continue
        if sym_bits == "all" or tuple(k) in sym_bits:
            v = z3.Bool(f"{prefix}_{k[0]}_{k[1]}_{k[2]}")
            ctx.inputs[str(v)] = v
            bits[k] = v
            arr.o[k] = SBool(v)
        else:
            val = bool(base[k])
            bits[k] = z3.BoolVal(val)
            arr.o[k] = val
    return arr, Lattice(n, n, prefix, bits=bits)


def concrete_bits(inputs, n, base=None, sym_bits="all", prefix="c"):
    a = np.zeros((2, n, n), dtype=bool) if base is None else np.array(base, dtype=bool).copy()
    for d in range(2):
        for i in range(n):
            for j in range(n):
                if sym_bits == "all" or (d, i, j) in sym_bits:
                    a[d, i, j] = bool(inputs.get(f"{prefix}_{d}_{i}_{j}", False))
    a[0, -1, :] = False
    a[1, :, -1] = False
    return a


def _cls(name):
    import maze_dataset.maze.lattice_maze as lm

    return getattr(lm, name)


def build_sym_maze(ctx, spec):
    """spec: n, kind, base (list | None), sym_bits ("all" | list of [d,i,j]), ends ("sym" | [[si,sj],[ei,ej]]), rowcol (bool)
    returns (maze, lattice, (start, end) as z3 terms / ints or None)"""
    n, kind = spec["n"], spec["kind"]
    base = np.array(spec["base"], dtype=bool) if spec.get("base") is not None else None
    sb = "all" if spec.get("sym_bits", "all") == "all" else {tuple(k) for k in spec["sym_bits"]}
    cl, lat = sym_maze_bits(ctx, n, base, sb)
    if spec.get("rowcol", True):
        ctx.solver.add(rowcol_precondition(lat))
    if kind == "LatticeMaze":
        return _cls(kind)(connection_list=cl), lat, None
    if spec.get("ends", "sym") == "sym":
        s = (fresh_int("s0", 0, n - 1), fresh_int("s1", 0, n - 1))
        e = (fresh_int("e0", 0, n - 1), fresh_int("e1", 0, n - 1))
        if spec.get("distinct_ends"):
            ctx.solver.add(z3.Or(zi(s[0]) != zi(e[0]), zi(s[1]) != zi(e[1])))
    else:
        s, e = tuple(spec["ends"][0]), tuple(spec["ends"][1])
    if kind == "TargetedLatticeMaze":
        return _cls(kind)(connection_list=cl, start_pos=SNP.array(list(s)) if is_sym(s[0]) else np.array(s),
                          end_pos=SNP.array(list(e)) if is_sym(e[0]) else np.array(e)), lat, (s, e)
    if spec.get("path") == "any":
        # an arbitrary simple path of the maze (not necessarily the solver's): chosen cell by cell, its edges assumed open
        cells = lat.cells
        path = [cells[ctx.choose(len(cells))]]
        while len(path) < spec.get("maxlen", 4):
            u = path[-1]
            nb = [v for v, _ in lat.adj(u) if v not in path]
            k = ctx.choose(len(nb) + 1)
            if k == len(nb):
                break
            ctx.solver.add(lat.bit[lat.edge_between(u, nb[k])])
            path.append(nb[k])
        for i, (a, b) in enumerate(path):
            ctx.inputs[f"path{i}_0"], ctx.inputs[f"path{i}_1"] = z3.IntVal(a), z3.IntVal(b)
        ctx.inputs["pathlen"] = z3.IntVal(len(path))
        if ctx.check() != z3.sat:
            raise PathAbort("path edges contradict the fixed bits")
        return _cls(kind)(connection_list=cl, solution=np.array(path)), lat, (path[0], path[-1])
    lm = _cls("LatticeMaze")(connection_list=cl)
    s_c, e_c = tuple(int(x) for x in s), tuple(int(x) for x in e)  # forks: endpoints become concrete cells
    try:
        sol = lm.find_shortest_path(s_c, e_c)
    except ValueError:
        raise PathAbort("no path between the endpoints: not a solvable instance")
    sol = [tuple(int(x) for x in p) for p in sol]
    return _cls(kind)(connection_list=cl, solution=np.array(sol)), lat, (s_c, e_c)


def build_concrete_maze(inputs, spec):
    n, kind = spec["n"], spec["kind"]
    base = np.array(spec["base"], dtype=bool) if spec.get("base") is not None else None
    sb = "all" if spec.get("sym_bits", "all") == "all" else {tuple(k) for k in spec["sym_bits"]}
    cl = concrete_bits(inputs, n, base, sb)
    if kind == "LatticeMaze":
        return _cls(kind)(connection_list=cl)
    if spec.get("ends", "sym") == "sym":
        s = (inputs.get("s0", 0), inputs.get("s1", 0))
        e = (inputs.get("e0", 0), inputs.get("e1", 0))
    else:
        s, e = tuple(spec["ends"][0]), tuple(spec["ends"][1])
    if kind == "TargetedLatticeMaze":
        return _cls(kind)(connection_list=cl, start_pos=np.array(s), end_pos=np.array(e))
    if spec.get("path") == "any":
        path = [(inputs.get(f"path{i}_0", 0), inputs.get(f"path{i}_1", 0)) for i in range(inputs.get("pathlen", 1))]
        for a, b in zip(path, path[1:]):
            cl[0 if a[0] != b[0] else 1, min(a[0], b[0]), min(a[1], b[1])] = True
        return _cls(kind)(connection_list=cl, solution=np.array(path))
    lm = _cls("LatticeMaze")(connection_list=cl)
    try:
        sol = lm.find_shortest_path(s, e)
    except ValueError:
        return None
    return _cls(kind)(connection_list=cl, solution=np.array(sol))


def arr_concrete(a) -> np.ndarray:
    """real array of an array whose elements are concrete on this path"""
    if isinstance(a, SArr):
        c = a.concrete()
        if c is None:
            out = np.empty(a.o.shape, dtype=object)
            for idx, e in np.ndenumerate(a.o):
                out[idx] = bool(e) if type(e) is SBool else (int(e) if type(e) is SInt else e)
            c = out.astype(np.int64 if a.kind != "b" else bool)
        return c
    return np.asarray(a)


def describe(m) -> str:
    cl = np.asarray(m.connection_list).astype(int).tolist()
    out = f"{type(m).__name__} {m.connection_list.shape[1]}x{m.connection_list.shape[2]} connection_list={cl}"
    if hasattr(m, "solution"):
        out += f" solution={[tuple(int(x) for x in p) for p in m.solution]}"
    elif hasattr(m, "start_pos"):
        out += f" start={tuple(int(x) for x in m.start_pos)} end={tuple(int(x) for x in m.end_pos)}"
    return out


# ------------------------------------------------------------------------------------------------ token parsing
def parse_coord(tokens, i, ut: bool, pre=True, intra=True, post=True):
    """parse one coordinate starting at tokens[i]; returns ((row, col), next index) or raises ValueError"""
    if ut:
        t = tokens[i]
        if not (t.startswith("(") and t.endswith(")") and t.count(",") == 1):
            raise ValueError(f"not a unique-token coordinate: {t!r}")
        a, b = t[1:-1].split(",")
        if not (a.isdigit() and b.isdigit()):
            raise ValueError(f"not a unique-token coordinate: {t!r}")
        return (int(a), int(b)), i + 1
    j = i
    if pre:
        if tokens[j] != "(":
            raise ValueError(f"expected '(' at {j}, got {tokens[j]!r}")
        j += 1
    a = tokens[j]
    j += 1
    if intra:
        if tokens[j] != ",":
            raise ValueError(f"expected ',' at {j}, got {tokens[j]!r}")
        j += 1
    b = tokens[j]
    j += 1
    if post:
        if tokens[j] != ")":
            raise ValueError(f"expected ')' at {j}, got {tokens[j]!r}")
        j += 1
    if not (a.isdigit() and b.isdigit()):
        raise ValueError(f"coordinate parts are not numbers: {a!r}, {b!r}")
    return (int(a), int(b)), j


def region(tokens, start, end):
    """tokens strictly between the unique delimiters start and end; raises ValueError if not exactly once each / misordered"""
    if tokens.count(start) != 1 or tokens.count(end) != 1:
        raise ValueError(f"{start} occurs {tokens.count(start)}x, {end} occurs {tokens.count(end)}x")
    a, b = tokens.index(start), tokens.index(end)
    if a >= b:
        raise ValueError(f"{start} does not precede {end}")
    return tokens[a + 1:b]
