"""C05 - datasets survive serialization round trips unchanged (in-memory formats; files are outside the claim)."""

from __future__ import annotations

import itertools
import types
import json
from collections import Counter

import numpy as np
import z3

from symx.core import Inconclusive, SBool, SInt, cur, fresh_bool, fresh_int, is_sym, zb, zi
from symx.harness import SNP, stubs_description
from symx.snp import SArr

from props import alias_common as _alias

ID = "C05"
FORMATS = {"minimal": "_serialize_minimal", "soln_cat": "_serialize_minimal_soln_cat", "full": "_serialize_full"}


def _meta(i, n):
    return dict(func_name="gen_dfs", grid_shape=np.array([n, n]), start_coord=np.array([i % n, 0]), n_accessible_cells=n * n, max_tree_depth=2 * n * n,
                fully_connected=bool(i % 2), visited_cells={(0, 0), (i % n, 0)})


def _sym_dataset(ctx, n, lengths, tag="", with_meta=True, sym_bits=True):
    """dataset whose connection bits and solution cells are symbolic; returns (dataset, per-maze terms)"""
    from maze_dataset import MazeDataset, MazeDatasetConfig
    from maze_dataset.maze.lattice_maze import SolvedMaze

    mazes, terms = [], []
    for mi, L in enumerate(lengths):
        cl = SNP.zeros((2, n, n), dtype=np.bool_)
        t = {}
        for d in range(2):
            for i in range(n):
                for j in range(n):
                    if sym_bits:
                        b = fresh_bool(f"{tag}m{mi}c_{d}_{i}_{j}")
                        cl.o[d, i, j] = b
                        t[("c", d, i, j)] = ctx.inputs[f"{tag}m{mi}c_{d}_{i}_{j}"]
                    else:
                        v = bool((mi + d + i * 2 + j) % 3 == 0)
                        cl.o[d, i, j] = v
                        t[("c", d, i, j)] = z3.BoolVal(v)
        cells = []
        for k in range(L):
            a, b = fresh_int(f"{tag}m{mi}p{k}i", 0, n - 1), fresh_int(f"{tag}m{mi}p{k}j", 0, n - 1)
            cells.append([a, b])
            t[("p", k, 0)], t[("p", k, 1)] = ctx.inputs[f"{tag}m{mi}p{k}i"], ctx.inputs[f"{tag}m{mi}p{k}j"]
        t["L"] = L
        mazes.append(SolvedMaze(connection_list=cl, solution=SNP.array(cells), generation_meta=_meta(mi, n) if with_meta else None))
        terms.append(t)
    cfg = MazeDatasetConfig(name=f"c05{tag}", grid_n=n, n_mazes=len(lengths))
    return MazeDataset(cfg, mazes), terms


def _expected_collected(lengths, n):
    exp = {}
    for i in range(len(lengths)):
        for k, v in _meta(i, n).items():
            c = exp.setdefault(k, Counter())
            if isinstance(v, (bool, int, float, str)):
                c[v] += 1
            elif isinstance(v, set):
                c.update(v)
            else:
                a = np.array(v)
                c[tuple(int(x) for x in a)] += 1
    return {k: {_k(a): b for a, b in c.items()} for k, c in exp.items()}


def _k(x):
    if isinstance(x, (tuple, list)):
        return tuple(int(v) for v in x)
    if isinstance(x, np.generic):
        return x.item()
    return x


def _collected_ok(got, lengths, n):
    if got is None:
        return False
    # JSON object keys are strings: values used as counter keys come back rendered with str(); compare modulo that
    exp = {k: {str(a): b for a, b in v.items()} for k, v in _expected_collected(lengths, n).items()}
    try:
        norm = {str(k): {str(_k(a)): int(b) for a, b in v.items()} for k, v in got.items()}
    except Exception:
        return False
    return norm == exp


def _cfg_js(cfg):
    d = cfg.serialize()
    return json.dumps({k: v for k, v in d.items() if k not in ("maze_ctor",)} | {"maze_ctor": d["maze_ctor"]["__name__"]}, sort_keys=True, default=str)


def _maze_obligations(loaded, terms, n, label):
    obs = [(f"{label}: same number of mazes", z3.BoolVal(len(loaded.mazes) == len(terms)))]
    if len(loaded.mazes) != len(terms):
        return obs
    for mi, (m, t) in enumerate(zip(loaded.mazes, terms)):
        cl, sol = m.connection_list, m.solution
        ok_shape = tuple(cl.shape) == (2, n, n) and tuple(np.shape(sol) if not isinstance(sol, SArr) else sol.shape) == (t["L"], 2)
        obs.append((f"{label}: maze {mi} has the original shapes", z3.BoolVal(ok_shape)))
        if not ok_shape:
            continue
        conds = [zb(_el(cl, (d, i, j))) == t[("c", d, i, j)] for d in range(2) for i in range(n) for j in range(n)]
        conds += [zi(_el(sol, (k, x))) == t[("p", k, x)] for k in range(t["L"]) for x in range(2)]
        conds += [zi(_el(m.start_pos, (x,))) == t[("p", 0, x)] for x in range(2)]
        conds += [zi(_el(m.end_pos, (x,))) == t[("p", t["L"] - 1, x)] for x in range(2)]
        obs.append((f"{label}: maze {mi} has identical connection structure, solution, start and end", z3.And(*conds)))
    return obs


def _el(a, idx):
    v = a.o[idx] if isinstance(a, SArr) else a[idx]
    return v.item() if isinstance(v, np.generic) else v


# ------------------------------------------------------------------------------------ harnesses
def _run_format(job):
    n, lengths, fmt = job["n"], job["lengths"], job["fmt"]

    def run(ctx, pinned=None):
        from maze_dataset import MazeDataset

        ds, terms = _sym_dataset(ctx, n, lengths, sym_bits=job.get("sym_bits", True))
        data = getattr(ds, FORMATS[fmt])()
        obs = [("format tag", z3.BoolVal(data["__format__"] == {"minimal": "MazeDataset:minimal", "soln_cat": "MazeDataset:minimal_soln_cat", "full": "MazeDataset"}[fmt]))]
        loaded = MazeDataset.load(data)
        obs += _maze_obligations(loaded, terms, n, fmt)
        # loading must not consume or modify the serialized data: the same serialized object loads again to the same dataset
        obs += _maze_obligations(MazeDataset.load(data), terms, n, f"{fmt}, second load of the same serialized data")
        obs.append((f"{fmt}: configuration equal to the (metadata-collected) original", z3.BoolVal(_cfg_js(loaded.cfg) == _cfg_js(ds.cfg) and loaded.cfg == ds.cfg)))
        # serializing the (now metadata-collected) dataset again must not change its configuration any further, and must load to the same configuration
        cfg_after_first = _cfg_js(ds.cfg)
        again = MazeDataset.load(getattr(ds, FORMATS[fmt])())
        obs.append((f"{fmt}: a second serialization leaves the configuration as it was and loads to the same configuration",
                    z3.BoolVal(_cfg_js(ds.cfg) == cfg_after_first and _cfg_js(again.cfg) == cfg_after_first)))
        if fmt != "full":
            obs.append((f"{fmt}: collected generation metadata keeps its keys and counts", z3.BoolVal(_collected_ok(loaded.generation_metadata_collected, lengths, n))))
        else:
            obs.append(("full: per-maze generation metadata present after the round trip", z3.BoolVal(all(m.generation_meta is not None and m.generation_meta.get("func_name") == "gen_dfs" for m in loaded.mazes))))
        return obs

    return run


def _rewrap(loaded, keep):
    """a dataset assembled from already-loaded mazes under the loaded configuration (as filters and splits do): the
    configuration's maze count is then stale, and the generation metadata is already collected"""
    from maze_dataset import MazeDataset

    return MazeDataset(cfg=loaded.cfg, mazes=[loaded.mazes[i] for i in keep], generation_metadata_collected=loaded.generation_metadata_collected)


def _run_format_stale(job):
    n, lengths, fmt, keep = job["n"], job["lengths"], job["fmt"], job["keep"]

    def run(ctx, pinned=None):
        from maze_dataset import MazeDataset

        ds, terms = _sym_dataset(ctx, n, lengths, sym_bits=job.get("sym_bits", True))
        first = MazeDataset.load(getattr(ds, FORMATS[fmt])())
        ds2 = _rewrap(first, keep)
        loaded = MazeDataset.load(getattr(ds2, FORMATS[job.get("fmt2", fmt)])())
        return _maze_obligations(loaded, [terms[i] for i in keep], n, f"{fmt} after re-wrapping {keep} of {len(lengths)} loaded mazes")

    return run


def _replay_format_stale(job, inputs, notes):
    from maze_dataset import MazeDataset

    ds = _concrete_dataset(job["n"], job["lengths"], inputs, sym_bits=job.get("sym_bits", True))
    ref = _concrete_dataset(job["n"], job["lengths"], inputs, sym_bits=job.get("sym_bits", True))
    tag = f"lengths {job['lengths']} grid {job['n']}, dataset re-assembled from loaded mazes {job['keep']} (configuration says {len(job['lengths'])} mazes)"
    try:
        first = MazeDataset.load(getattr(ds, FORMATS[job["fmt"]])())
        loaded = MazeDataset.load(getattr(_rewrap(first, job["keep"]), FORMATS[job.get("fmt2", job["fmt"])])())
    except Exception as e:
        return f"roundtrip-raises:{job['fmt']} | {tag}: {type(e).__name__}: {str(e)[:120]}"
    want = types.SimpleNamespace(mazes=[ref.mazes[i] for i in job["keep"]])
    why = _same_mazes(want, loaded)
    if why:
        return f"roundtrip-mazes:{job['fmt']} | {tag}: {why}"
    return None


def _run_dispatch(job):
    n, lengths = job["n"], job["lengths"]

    def run(ctx, pinned=None):
        import maze_dataset.dataset.maze_dataset as md
        from maze_dataset import MazeDataset

        ds, terms = _sym_dataset(ctx, n, lengths, sym_bits=False)
        if ctx.choose(2) == 1:
            thr, tv = None, None
            ctx.inputs["thr_none"] = z3.BoolVal(True)
        else:
            ctx.inputs["thr_none"] = z3.BoolVal(False)
            thr = fresh_int("thr", 0, len(lengths) + 2)
            tv = ctx.inputs["thr"]
        old = md.SERIALIZE_MINIMAL_THRESHOLD
        md.SERIALIZE_MINIMAL_THRESHOLD = thr
        try:
            data = ds.serialize()
            loaded = MazeDataset.load(data)
        finally:
            md.SERIALIZE_MINIMAL_THRESHOLD = old
        want_min = z3.BoolVal(False) if tv is None else (z3.IntVal(len(lengths)) >= tv)
        obs = [("minimal format chosen exactly when a threshold is set and the dataset is at least that large",
                z3.BoolVal(data["__format__"] == "MazeDataset:minimal") == want_min),
               ("otherwise the full format", z3.BoolVal(data["__format__"] in ("MazeDataset", "MazeDataset:minimal")))]
        obs += _maze_obligations(loaded, terms, n, "serialize()/load()")
        obs.append(("configuration equal", z3.BoolVal(loaded.cfg == ds.cfg and _cfg_js(loaded.cfg) == _cfg_js(ds.cfg))))
        return obs

    return run


def _run_collection(job):
    n, lens_list, thr = job["n"], job["members"], job["thr"]

    def run(ctx, pinned=None):
        import maze_dataset.dataset.maze_dataset as md
        from maze_dataset.dataset.collected_dataset import MazeDatasetCollection, MazeDatasetCollectionConfig

        members, all_terms = [], []
        for k, lengths in enumerate(lens_list):
            ds, terms = _sym_dataset(ctx, n, lengths, tag=f"d{k}", sym_bits=False)
            if job.get("same_names"):
                ds.cfg.name = "test"  # members may share a name (the library's own test configurations are all called "test")
            members.append(ds)
            all_terms.append(terms)
        coll = MazeDatasetCollection(MazeDatasetCollectionConfig(name="coll", maze_dataset_configs=[m.cfg for m in members]), members)
        old = md.SERIALIZE_MINIMAL_THRESHOLD
        md.SERIALIZE_MINIMAL_THRESHOLD = thr
        try:
            data = coll.serialize()
            back = MazeDatasetCollection.load(data)
        finally:
            md.SERIALIZE_MINIMAL_THRESHOLD = old
        obs = [("same number of members", z3.BoolVal(len(back.maze_datasets) == len(members)))]
        if len(back.maze_datasets) != len(members):
            return obs
        for k, (b, terms) in enumerate(zip(back.maze_datasets, all_terms)):
            obs += _maze_obligations(b, terms, n, f"member {k}")
            obs.append((f"member {k}: configuration equal", z3.BoolVal(b.cfg == members[k].cfg)))
        obs.append(("collection length preserved", z3.BoolVal(len(back) == sum(len(x) for x in lens_list))))
        return obs

    return run


def _concrete_dataset(n, lengths, inputs, tag="", sym_bits=True, with_meta=True):
    from maze_dataset import MazeDataset, MazeDatasetConfig
    from maze_dataset.maze.lattice_maze import SolvedMaze

    mazes = []
    for mi, L in enumerate(lengths):
        cl = np.zeros((2, n, n), dtype=bool)
        for d in range(2):
            for i in range(n):
                for j in range(n):
                    cl[d, i, j] = bool(inputs.get(f"{tag}m{mi}c_{d}_{i}_{j}", False)) if sym_bits else bool((mi + d + i * 2 + j) % 3 == 0)
        sol = np.array([[inputs.get(f"{tag}m{mi}p{k}i", 0), inputs.get(f"{tag}m{mi}p{k}j", 0)] for k in range(L)])
        mazes.append(SolvedMaze(connection_list=cl, solution=sol, generation_meta=_meta(mi, n) if with_meta else None))
    return MazeDataset(MazeDatasetConfig(name=f"c05{tag}", grid_n=n, n_mazes=len(lengths)), mazes)


def _same_mazes(a, b):
    if len(a.mazes) != len(b.mazes):
        return f"{len(b.mazes)} mazes instead of {len(a.mazes)}"
    for i, (x, y) in enumerate(zip(a.mazes, b.mazes)):
        for f in ("connection_list", "solution", "start_pos", "end_pos"):
            u, v = np.asarray(getattr(x, f)), np.asarray(getattr(y, f))
            if u.shape != v.shape or not np.array_equal(u, v):
                return f"maze {i} field {f}: {v.tolist()} instead of {u.tolist()}"
    return None


def _replay_format(job, inputs, notes):
    from maze_dataset import MazeDataset

    ds = _concrete_dataset(job["n"], job["lengths"], inputs, sym_bits=job.get("sym_bits", True))
    ref = _concrete_dataset(job["n"], job["lengths"], inputs, sym_bits=job.get("sym_bits", True))
    try:
        loaded = MazeDataset.load(getattr(ds, FORMATS[job["fmt"]])())
    except Exception as e:
        return f"roundtrip-raises:{job['fmt']} | lengths {job['lengths']} grid {job['n']}: {type(e).__name__}: {str(e)[:120]}"
    why = _same_mazes(ref, loaded)
    if why:
        return f"roundtrip-mazes:{job['fmt']} | lengths {job['lengths']} grid {job['n']}: {why}"
    try:
        ser = getattr(ds, FORMATS[job["fmt"]])()
        MazeDataset.load(ser)
        why = _same_mazes(ref, MazeDataset.load(ser))
    except Exception as e:
        why = f"{type(e).__name__}: {str(e)[:120]}"
    if why:
        return f"roundtrip-load-consumes-data:{job['fmt']} | lengths {job['lengths']} grid {job['n']}: loading the same serialized data a second time: {why}"
    if not (loaded.cfg == ds.cfg) or _cfg_js(loaded.cfg) != _cfg_js(ds.cfg):
        return f"roundtrip-cfg:{job['fmt']} | configuration differs after the round trip"
    if job["fmt"] != "full" and not _collected_ok(loaded.generation_metadata_collected, job["lengths"], job["n"]):
        return f"roundtrip-metadata:{job['fmt']} | collected metadata {loaded.generation_metadata_collected}"
    return None


def _replay_dispatch(job, inputs, notes):
    import maze_dataset.dataset.maze_dataset as md
    from maze_dataset import MazeDataset

    ds = _concrete_dataset(job["n"], job["lengths"], inputs, sym_bits=False)
    ref = _concrete_dataset(job["n"], job["lengths"], inputs, sym_bits=False)
    thr = None if inputs.get("thr_none") else inputs.get("thr", 0)
    old = md.SERIALIZE_MINIMAL_THRESHOLD
    md.SERIALIZE_MINIMAL_THRESHOLD = thr
    try:
        data = ds.serialize()
        loaded = MazeDataset.load(data)
    except Exception as e:
        return f"dispatch-raises | threshold {thr} lengths {job['lengths']}: {type(e).__name__}: {str(e)[:100]}"
    finally:
        md.SERIALIZE_MINIMAL_THRESHOLD = old
    want = thr is not None and len(job["lengths"]) >= thr
    if (data["__format__"] == "MazeDataset:minimal") != want:
        return f"dispatch-format | threshold {thr}, {len(job['lengths'])} mazes: format {data['__format__']}"
    why = _same_mazes(ref, loaded)
    if why:
        return f"dispatch-roundtrip | threshold {thr} lengths {job['lengths']}: {why}"
    return None


def _replay_collection(job, inputs, notes):
    import maze_dataset.dataset.maze_dataset as md
    from maze_dataset.dataset.collected_dataset import MazeDatasetCollection, MazeDatasetCollectionConfig

    members = [_concrete_dataset(job["n"], l, inputs, tag=f"d{k}", sym_bits=False) for k, l in enumerate(job["members"])]
    refs = [_concrete_dataset(job["n"], l, inputs, tag=f"d{k}", sym_bits=False) for k, l in enumerate(job["members"])]
    if job.get("same_names"):
        for m in members + refs:
            m.cfg.name = "test"
    coll = MazeDatasetCollection(MazeDatasetCollectionConfig(name="coll", maze_dataset_configs=[m.cfg for m in members]), members)
    old = md.SERIALIZE_MINIMAL_THRESHOLD
    md.SERIALIZE_MINIMAL_THRESHOLD = job["thr"]
    try:
        back = MazeDatasetCollection.load(coll.serialize())
    except Exception as e:
        return f"collection-roundtrip-raises | members {job['members']} threshold {job['thr']}: {type(e).__name__}: {str(e)[:100]}"
    finally:
        md.SERIALIZE_MINIMAL_THRESHOLD = old
    if len(back.maze_datasets) != len(members):
        return f"collection-roundtrip | {len(back.maze_datasets)} members"
    for k, (r, b) in enumerate(zip(refs, back.maze_datasets)):
        why = _same_mazes(r, b)
        if why:
            return f"collection-roundtrip | member {k} (threshold {job['thr']}): {why}"
    return None


# --------------------------------------------------------- concrete runs at sizes beyond the symbolic bound
def _serpentine(n, L):
    cells = []
    for i in range(n):
        row = [(i, j) for j in range(n)]
        cells += row if i % 2 == 0 else row[::-1]
    return cells[:L]


def _large_problem(job):
    import maze_dataset.dataset.maze_dataset as md
    from maze_dataset import MazeDataset, MazeDatasetConfig
    from maze_dataset.maze.lattice_maze import SolvedMaze

    n, lengths, fmt = job["n"], job["lengths"], job["fmt"]
    def build():
        mazes = []
        for mi, L in enumerate(lengths):
            sol = _serpentine(n, L)
            cl = np.zeros((2, n, n), dtype=bool)
            for a, b in zip(sol, sol[1:]):
                cl[0 if a[0] != b[0] else 1, min(a[0], b[0]), min(a[1], b[1])] = True
            cl[1, (mi * 3) % n, (mi * 5) % (n - 1)] = True
            mazes.append(SolvedMaze(connection_list=cl, solution=np.array(sol), generation_meta=_meta(mi, n)))
        return MazeDataset(MazeDatasetConfig(name="c05big", grid_n=n, n_mazes=len(lengths)), mazes)

    ds, ref = build(), build()
    old = md.SERIALIZE_MINIMAL_THRESHOLD
    if job.get("via_file"):
        return _file_problem(job, ds, ref, md, old)
    try:
        if fmt == "default_threshold":
            data = ds.serialize()
            want = len(lengths) >= (old if old is not None else 10 ** 9)
            if (data["__format__"] == "MazeDataset:minimal") != want:
                return f"dispatch-format | default threshold {old}, {len(lengths)} mazes: format {data['__format__']}"
        else:
            data = getattr(ds, FORMATS[fmt])()
        loaded = MazeDataset.load(data)
    except Exception as e:
        return f"roundtrip-raises:{fmt} | grid {n}, solution lengths up to {max(lengths)}: {type(e).__name__}: {str(e)[:100]}"
    why = _same_mazes(ref, loaded)
    if why:
        return f"roundtrip-mazes:{fmt} | grid {n}, {len(lengths)} mazes with solution lengths up to {max(lengths)}: {why[:200]}"
    if fmt != "full" and data["__format__"] != "MazeDataset" and not _collected_ok(loaded.generation_metadata_collected, lengths, n):
        return f"roundtrip-metadata:{fmt} | grid {n}"
    return None


def _file_problem(job, ds, ref, md, old):
    """the same datasets through a real file (ZANJ writer and reader; concrete): what comes back from disk must be what the in-memory
    round trip gives - in particular past ZANJ's external-list threshold of 256 items"""
    import shutil
    import tempfile
    from pathlib import Path

    from maze_dataset import MazeDataset
    from zanj import ZANJ

    n, lengths, fmt = job["n"], job["lengths"], job["fmt"]
    d = Path(tempfile.mkdtemp(prefix="verif-c05-"))
    try:
        f = d / "ds.zanj"
        try:
            if fmt == "full":
                md.SERIALIZE_MINIMAL_THRESHOLD = None
                ds.save(f)
            elif fmt == "default_threshold":
                ds.save(f)
            else:
                ZANJ().save(getattr(ds, FORMATS[fmt])(), f)
            loaded = MazeDataset.read(f)
        except Exception as e:
            return f"roundtrip-raises:{fmt}-file | grid {n}, {len(lengths)} mazes through a file: {type(e).__name__}: {str(e)[:100]}"
        finally:
            md.SERIALIZE_MINIMAL_THRESHOLD = old
        if not isinstance(loaded, MazeDataset):
            return f"roundtrip-mazes:{fmt}-file | reading the file back gives a {type(loaded).__name__}"
        try:
            why = _same_mazes(ref, loaded)
        except Exception as e:
            why = f"loaded items are not mazes ({type(e).__name__}: {str(e)[:80]})"
        if why:
            return f"roundtrip-mazes:{fmt}-file | grid {n}, {len(lengths)} mazes through a file: {why[:200]}"
        if _cfg_js(loaded.cfg) != _cfg_js(ds.cfg):
            return f"roundtrip-cfg:{fmt}-file | configuration differs after the file round trip"
    finally:
        shutil.rmtree(d, ignore_errors=True)
    return None


def _run_large(job):
    def run(ctx, pinned=None):
        p = _large_problem(job)
        ctx.notes["problem"] = p
        return [(f"concrete round trip ({job['fmt']}, grid {job['n']}, {len(job['lengths'])} mazes)", z3.BoolVal(p is None))]

    return run


def _replay_large(job, inputs, notes):
    return _large_problem(job)


# ------------------------------------------------------------------------------------------ jobs
def jobs(tier, seed):
    q = tier == "quick"
    out = []
    maxm, maxl = (3, 3) if q else (4, 5)
    vecs = []
    for k in range(1, maxm + 1):
        for v in itertools.product(range(1, maxl + 1), repeat=k):
            vecs.append(list(v))
    if not q:
        rng = np.random.default_rng(seed)
        vecs = [v for v in vecs if len(v) <= 2 or max(v) <= 3] + [vecs[i] for i in rng.choice(len(vecs), size=60, replace=False)]
    for v in vecs:
        for fmt in ("minimal", "soln_cat"):
            out.append(dict(h="format", n=2 if sum(v) % 2 else 3, lengths=v, fmt=fmt))
    for v in ([[1], [2, 1]] if q else [[1], [2, 1], [1, 3, 2]]):
        out.append(dict(h="format", n=2, lengths=v, fmt="full", sym_bits=False, max_seconds=3300))
    # datasets re-assembled from loaded mazes: fewer / more mazes than the configuration's (stale) count, metadata already collected
    for v, keeps in [([2, 1, 3], [[0], [1, 2], [2, 0, 1, 0]]), ([1, 2], [[1], [0, 1, 1]])] + ([] if q else [([3, 1, 2, 2], [[3, 1], [0, 1, 2, 3, 2, 1]])]):
        for keep in keeps:
            for fmt in ("minimal", "soln_cat"):
                out.append(dict(h="format_stale", n=2 if sum(v) % 2 else 3, lengths=v, fmt=fmt, keep=keep))
            out.append(dict(h="format_stale", n=2, lengths=v, fmt="minimal", fmt2="soln_cat", keep=keep, sym_bits=False))
    for v in ([[2], [1, 2, 3], [3, 1]] if q else [[2], [1, 2, 3], [3, 1], [1, 1, 1, 1], [2, 4, 1, 3]]):
        out.append(dict(h="dispatch", n=3, lengths=v))
    for members, thr in [([[1, 2], [3]], None), ([[1, 2], [3]], 1), ([[2], [], [1, 1]], None), ([[], [2]], None)] + ([] if q else [([[1], [2, 2], [3]], 2), ([[], [], [1]], None)]):
        out.append(dict(h="collection", n=2, members=members, thr=thr))
    for members, thr in [([[1, 2], [3]], None), ([[2], [1, 1], [3]], None)] + ([] if q else [([[1], [2, 2]], 1)]):
        out.append(dict(h="collection", n=2, members=members, thr=thr, same_names=True))
    big = [(12, [130, 5, 144], "minimal"), (12, [130, 5, 144], "soln_cat"), (12, [128, 127], "full"), (16, [255, 256, 1], "minimal"), (16, [255, 256, 1], "soln_cat"),
           (4, [3] * 99, "default_threshold"), (4, [2, 5] * 50, "default_threshold"), (4, [4] * 101, "default_threshold")]
    if not q:
        big += [(16, [200] * 120, "default_threshold"), (20, [400, 129, 2], "minimal"), (20, [400, 129, 2], "soln_cat"), (20, [300], "full")]
    for n, lengths, fmt in big:
        out.append(dict(h="large", n=n, lengths=lengths, fmt=fmt, label=f"large:{fmt}:n={n}:{len(lengths)}x<= {max(lengths)}"))
    # through real files (concrete): small and past ZANJ's external-list threshold of 256 items, every format
    files = [(3, [2, 3, 1], "full"), (3, [2, 3] * 150, "full"), (4, [3] * 120, "default_threshold"), (3, [2, 3, 1, 4] * 3, "soln_cat"), (3, [3, 1] * 140, "minimal")]
    if not q:
        files += [(5, [7] * 1000, "full"), (3, [1, 2] * 200, "soln_cat")]
    for n, lengths, fmt in files:
        out.append(dict(h="large", n=n, lengths=lengths, fmt=fmt, via_file=True, label=f"file:{fmt}:n={n}:{len(lengths)} mazes"))
    out.append(dict(_alias.ALIAS_JOB))  # results must not alias library state, arguments or each other (props/alias_common.py)
    out[0]["twin"] = True
    return out


_P = dict(np_modules=["maze_dataset.maze.lattice_maze", "maze_dataset.dataset.maze_dataset"], stub_ascii=False)
HARNESSES = {"format": dict(run=_run_format, replay=_replay_format, patch=_P), "format_stale": dict(run=_run_format_stale, replay=_replay_format_stale, patch=_P), "dispatch": dict(run=_run_dispatch, replay=_replay_dispatch, patch=_P),
             "collection": dict(run=_run_collection, replay=_replay_collection, patch=_P),
             "large": dict(run=_run_large, replay=_replay_large, patch=dict(np_modules=[], stub_ascii=False))}
HARNESSES["alias"] = _alias.alias_harness("C05")

META = dict(
    functions=["MazeDataset.serialize (threshold dispatch)", "_serialize_minimal / _load_minimal", "_serialize_minimal_soln_cat / _load_minimal_soln_cat", "_serialize_full / _load_full",
               "MazeDataset.load (format dispatch)", "MazeDatasetFilters.collect_generation_meta", "MazeDatasetCollection.serialize / load", "SolvedMaze.__init__"],
    bounds=dict(
        quick="in memory; every connection bit and every solution cell symbolic; all ragged solution-length vectors over 1..3 for 1..3 mazes on 2x2 / 3x3 for the two "
              "minimal formats; full format on 2x2 with symbolic solution cells; serialize()/load() with the minimal-format threshold symbolic (or None); collections of "
              "2-3 members incl. empty members and members that share a name; datasets re-assembled from loaded mazes (stale maze count, metadata already collected); plus concrete (non-symbolic) round trips at sizes beyond the symbolic bound: grids 12 and 16 with solution "
              "lengths 127..256, 99 / 100 / 101 mazes against the default threshold; and concrete round trips through real files (ZANJ) in every format with 3..300 mazes (past ZANJ's external-list threshold of 256)",
        thorough="length vectors up to 4 mazes / lengths 5, more collections, concrete runs on 20x20 with 400-cell solutions and 120 mazes",
    ),
    degenerate=dict(format_full="json_serialize of arrays realises symbolic values: the solution cells are forked to concrete values (enumeration)",
                    large="no symbolic input (concrete evaluation with real numpy; the `file:` instances additionally go through the real ZANJ writer and reader)"),
    stubs=stubs_description(np_modules=["maze_dataset.maze.lattice_maze", "maze_dataset.dataset.maze_dataset"], stub_ascii=False) + [
        "SERIALIZE_MINIMAL_THRESHOLD -> symbolic integer / None (dispatch harness)"],
    outside=["symbolic treatment of paths through a file: ZANJ, zip, np.save / json text are C and I/O code that realises symbolic values at once; files are covered only by the concrete round trips listed in the bounds (3..300 mazes per format; 1000 thorough)",
             "narrow integer storage (int8) is modelled with numpy's wrap-around by the shim, but the symbolic harnesses run on grids 2 and 3 only; the int8 boundary (127/128) itself is exercised by the concrete runs",
             "datasets without any generation metadata in the minimal formats (the code asserts)"],
    assumptions=["zanj.load_item_recursive passes array objects through unchanged", "per-maze generation metadata of the shape the generators produce"],
)

META.setdefault("degenerate", {})["alias"] = _alias.ALIAS_META
