"""C01 - generators emit well-formed lattice graphs; DFS and Wilson emit spanning trees.
(also hosts the shared job table / runner used by C12)"""

from __future__ import annotations

import numpy as np
import z3

from props import gen_common as G
from symx.core import Truncated

from props import alias_common as _alias

ID = "C01"
WANT = ("c01",)


def _shapes(tier):
    small = [(r, c) for r in range(1, 7) for c in range(1, 7) if r * c <= 6]
    return small


def _splits(spec):
    """partition of the executions by the values of some draws: every listed value plus a catch-all"""
    import itertools

    names = list(spec)
    alts = [[["eq", v] for v in spec[n]] + [["notin", list(spec[n])]] for n in names]
    return [dict(zip(names, combo)) for combo in itertools.product(*alts)]


def make_jobs(tier, seed, want):
    q = tier == "quick"
    out = []
    for gen in G.GENS:
        for r, c in _shapes(tier):
            if gen == "gen_wilson":
                continue
            for kw in G.kwargs_grid(gen, r, c, tier, seed):
                if (kw.get("randomized_stack") or gen == "gen_prim") and r * c > 4 and q and kw not in ({}, dict(randomized_stack=True), dict(accessible_cells=r * c - 1)):
                    continue
                if (kw.get("randomized_stack") or gen == "gen_prim") and r * c >= 6:
                    for sp in _splits({"rng0": [0, 1], "rng1": [0, 1], "rng3": [0, 1, 2]}):
                        out.append(dict(h="gen", gen=gen, r=r, c=c, kwargs=kw, split=sp))
                    continue
                out.append(dict(h="gen", gen=gen, r=r, c=c, kwargs=kw))
    # larger grids
    for gen, r, c in [("gen_dfs", 3, 3)] + ([] if q else [("gen_dfs", 3, 4), ("gen_dfs", 4, 3), ("gen_prim", 3, 3), ("gen_dfs", 4, 4)]):
        kws = [dict(), dict(accessible_cells=5), dict(do_forks=False), dict(max_tree_depth=2)] if q else G.kwargs_grid(gen, r, c, tier, seed)
        for kw in kws:
            if (r * c >= 12 and kw) or (gen == "gen_prim" and kw.get("accessible_cells") is None and kw):
                continue
            # a randomized stack on 9 or more cells has an execution tree far beyond any time budget unless the tree is
            # capped by accessible_cells (measured: the uncapped 3x3 jobs did not finish in 55 minutes): outside the claim
            ac = kw.get("accessible_cells")
            if (kw.get("randomized_stack") or gen == "gen_prim") and r * c >= 9 and not (isinstance(ac, int) and not isinstance(ac, bool) and ac <= 5):
                continue
            if r * c >= 16:
                for a in range(3):
                    for b in range(3):
                        out.append(dict(h="gen", gen=gen, r=r, c=c, kwargs=kw, split={"rng0": ["eq", a], "rng1": ["eq", b]}, max_seconds=3300))
                continue
            out.append(dict(h="gen", gen=gen, r=r, c=c, kwargs=kw, max_seconds=3300))
    # one-cell-wide grids longer than 128 cells: coordinate arithmetic beyond the int8 range (few random executions: a corridor)
    for r, c, sc in [(1, 130, [0, 3]), (1, 130, [0, 129]), (131, 1, [127, 0])] + ([] if q else [(1, 200, [0, 100]), (140, 1, [3, 0])]):
        out.append(dict(h="gen", gen="gen_dfs", r=r, c=c, kwargs={} if sc is None else dict(start_coord=sc), max_seconds=3300))
    # grid shape held in a narrow integer dtype (int8 is the library's own coordinate dtype) on grids whose cell count does not fit it;
    # the decision tree of a 128-cell DFS is out of reach, so only the first draw (the start row) stays free and the rest follow one seeded continuation
    for gen, r, c, dt in [("gen_dfs", 8, 16, "int8"), ("gen_dfs", 12, 11, "int8"), ("gen_prim", 2, 64, "int8"), ("gen_dfs_percolation", 16, 8, "int8"), ("gen_percolation", 12, 12, "int8")] + (
            [] if q else [("gen_dfs", 16, 17, "uint8"), ("gen_dfs", 3, 43, "int8"), ("gen_wilson", 2, 64, "int8")]):
        if "c12" in want and q:
            continue  # the reachability oracles of C12 over 128+ cells cost minutes per execution: thorough tier only
        kw = dict(_shape_dtype=dt)
        if gen.endswith("percolation"):
            kw["p"] = 0 if gen == "gen_dfs_percolation" else 1
        out.append(dict(h="gen", gen=gen, r=r, c=c, kwargs=kw, split={"_pin_after": [1, seed]}, K=None if gen != "gen_wilson" else 100000, max_seconds=3300))
    for gen, r, c in ([("gen_percolation", 2, 4), ("gen_dfs_percolation", 2, 3)] if q else
                      [("gen_percolation", 3, 3), ("gen_percolation", 3, 4), ("gen_dfs_percolation", 3, 3)]):
        for kw in ([dict(), dict(p=0), dict(p=1)] if gen == "gen_percolation" else [dict(), dict(p=0.5, accessible_cells=3)]):
            if gen == "gen_percolation" and r * c > 9 and not kw:
                continue  # 17 free bits: a single instance of 45+ minutes (C12: over the 55-minute budget) - only p in {0, 1} on 3x4
            if gen == "gen_dfs_percolation" and r * c == 9:
                for a in range(2):
                    for b in range(2):
                        out.append(dict(h="gen", gen=gen, r=r, c=c, kwargs=kw, split={"rng0": ["eq", a], "rng1": ["eq", b]}, max_seconds=3300))
                continue
            out.append(dict(h="gen", gen=gen, r=r, c=c, kwargs=kw, max_seconds=3300))
    # Wilson: unbounded walks, explored up to a total walk-step bound K (longer executions are cut and counted)
    wil = [((1, 1), 4), ((1, 2), 8), ((2, 1), 8), ((1, 3), 8), ((2, 2), 8 if q else 12)] + ([((2, 3), 7), ((3, 2), 7)] if q else [((2, 3), 9), ((3, 2), 9), ((3, 3), 7)])
    for (r, c), K in wil:
        if r * c <= 4:
            out.append(dict(h="gen", gen="gen_wilson", r=r, c=c, kwargs={}, K=K))
            continue
        # partition executions by the first walk start (rng2) and first step (rng3)
        for a in list(range(r * c - 1)) + [None]:
            for b in [0, 1, 2, 3, None]:
                sp = {"rng2": ["eq", a] if a is not None else ["notin", list(range(r * c - 1))],
                      "rng3": ["eq", b] if b is not None else ["notin", [0, 1, 2, 3]]}
                out.append(dict(h="gen", gen="gen_wilson", r=r, c=c, kwargs={}, K=K, split=sp, max_seconds=3300))
    for j in out:
        j["want"] = list(want)
    out.append(dict(_alias.ALIAS_JOB))  # results must not alias library state, arguments or each other (props/alias_common.py)
    out[0]["twin"] = True
    return out


def jobs(tier, seed):
    return make_jobs(tier, seed, WANT)


def _history():
    """earlier use of the library in the same process: every generator already ran on other shapes with other arguments
    (a generator's result must not depend on what was generated before - quantifier 'histories')"""
    import random as _r

    st_py, st_np = _r.getstate(), np.random.get_state()
    try:
        _r.seed(5)
        np.random.seed(5)
        for gen, r, c, kw in [("gen_dfs", 2, 4, {}), ("gen_dfs", 3, 2, dict(accessible_cells=3, start_coord=[2, 1])), ("gen_prim", 2, 2, dict(do_forks=False)),
                              ("gen_wilson", 3, 2, {}), ("gen_percolation", 2, 5, dict(p=0.5)), ("gen_dfs_percolation", 4, 2, dict(p=0.3, max_tree_depth=2))]:
            m = G.call_generator(gen, r, c, kw)
            m.get_connected_component()
    finally:
        _r.setstate(st_py)
        np.random.set_state(st_np)


def _run_gen(job):
    gen, r, c, kwargs = job["gen"], job["r"], job["c"], job["kwargs"]
    want = job["want"]
    from symx import harness as _H

    with _H.unpatched():
        _history()

    def run(ctx, pinned=None):
        with G.GenEnv(split=job.get("split"), walk_bound=job.get("K")):
            try:
                maze = G.call_generator(gen, r, c, kwargs)
            except AssertionError as e:
                # documented argument validation (float arguments > 1 etc.) - none on the kwargs grid
                return [("generator accepts the arguments on the grid", z3.BoolVal(False))]
            obs, lat = G.wellformed_obligations(gen, r, c, kwargs, maze)
            out = list(obs) if "c01" in want else []
            if lat is not None and "c12" in want:
                out += G.meta_obligations(gen, r, c, kwargs, maze, lat)
                # consequence: random endpoints are drawn from get_connected_component(); all of its cells
                # must be mutually reachable (in every completion of the unread bits)
                cc = maze.get_connected_component()
                cells = [tuple(int(x) for x in v) for v in cc]
                if cells:
                    reach = lat.reach(cells[0])
                    out.append(("cells offered as random endpoints are mutually reachable",
                                z3.And(*[reach[v] if v in reach else z3.BoolVal(False) for v in cells])))
            return out

    return run


def _replay_gen(job, inputs, notes):
    gen, r, c, kwargs = job["gen"], job["r"], job["c"], job["kwargs"]
    _history()
    with G.ScriptedEnv(inputs):
        maze = G.call_generator(gen, r, c, kwargs)
        bad = G.concrete_checks(gen, r, c, kwargs, maze, want=job["want"])
        if not bad and "c12" in job["want"]:
            from symx import concrete as C

            cl = np.asarray(maze.connection_list)
            cells = [tuple(int(x) for x in v) for v in maze.get_connected_component()]
            if cells and not set(cells) <= C.component(cl, cells[0]):
                bad.append(f"meta-endpoints-unreachable | {gen}{kwargs} on {r}x{c}: get_connected_component offers {sorted(cells)} which are not "
                           f"mutually reachable; {cl.astype(int).tolist()}")
    return bad[0] if bad else None


HARNESSES = {"gen": dict(run=_run_gen, replay=_replay_gen, patch=dict(np_modules=[], stub_ascii=True))}
HARNESSES["alias"] = _alias.alias_harness("C01")

META = dict(
    functions=["LatticeMazeGenerators.gen_dfs", "gen_prim", "gen_wilson", "gen_percolation", "gen_dfs_percolation", "_random_start_coord",
               "get_neighbors_in_bounds", "_fill_edges_with_walls", "LatticeMaze.gen_connected_component_from"],
    bounds=dict(
        quick="every RNG draw symbolic; all shapes r x c with r*c <= 6 for dfs/prim/percolation/dfs_percolation over the kwargs grid "
              "(accessible_cells in {None,0,1,2,rc-1,rc,rc+1,0.0,0.5,1.0}, max_tree_depth in {None,0,1,2,3,0.5,1.0}, do_forks, randomized_stack, "
              "start_coord) one-at-a-time plus seeded combinations; gen_dfs 3x3 and on corridors 1x130, 131x1 with a given start cell (beyond the int8 coordinate range); percolation 3x3 (p in {0.4,0,1}); grid shape given as an int8 array on 8x16, 12x11, 2x64, 16x8, 12x12 (128+ cells; first draw free, then one seeded continuation); Wilson on <=2x2 with total "
              "walk bound K=8 and 2x3/3x2 with K=7",
        thorough="as quick plus gen_dfs 3x4/4x3/4x4, gen_prim / randomized_stack on 3x3 only with accessible_cells <= 5, percolation 3x4 for p in {0, 1} only, dfs_percolation 3x3, Wilson 2x2 K=12, 2x3/3x2 K=9, 3x3 K=7 (K=9 on 3x3 did not finish within the 55-minute instance budget)",
    ),
    degenerate=dict(gen_dfs="each path is one concrete random execution (draws are concretised when used as indices): exhaustive "
                            "enumeration of the RNG decision tree within the bound; percolation variants keep the edge bits symbolic"),
    stubs=G.STUBS,
    outside=["grids beyond the bound", "kwargs off the grid", "randomized stack (gen_prim, randomized_stack=True) on 9 or more cells without a small accessible_cells cap", "Wilson executions with more than K walk steps (counted as truncated)",
             "grid_shape passed as a tuple to gen_wilson (TypeError; documented type is an array)", "lattice_dim != 2"],
    assumptions=["fixed pre-history: before every instance each generator has already run once on another shape with other arguments in the same process", "draw contracts: random.choice/randint and np.random.randint/choice return any value in range, np.random.rand any real in [0,1)"],
)

META.setdefault("degenerate", {})["alias"] = _alias.ALIAS_META
