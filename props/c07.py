"""C07 - legacy tokenization round-trips and agrees with its modular equivalent.

Harnesses
  roundtrip   cls.from_tokens(maze.as_tokens(tok), tok) for the three maze kinds, the three legacy modes (with and
              without max_grid_size), the enum members themselves and the declared modular equivalents, tokens as
              a list and as one space-joined string.  Maze bits, endpoints and every RNG draw of the tokenizers are
              inputs; small grids are explored completely, larger grids (multi-digit coordinates) around concrete
              base mazes with a few symbolic bits.
  agree       legacy tokens vs tokens of MazeTokenizerModular.from_legacy(mode) for the same maze: identical outside
              the adjacency region, same multiset of unordered edges inside
  dataset     MazeDataset.as_tokens(tok, limit, join) == per-maze tokenization in order, limit symbolic
  lemma       CrossHair (engine C) lemmas on the string codec and on tokens_between
"""

from __future__ import annotations

import os
import re
import subprocess
import sys
from collections import Counter
from pathlib import Path

import numpy as np
import z3

from symx import core
from symx.core import Inconclusive, PathAbort, cur, fresh_int, is_sym, zi
from props import tok_common as T

from props import alias_common as _alias

ID = "C07"
VERIF = Path(__file__).resolve().parent.parent
MODES = ["AOTP_UT_rasterized", "AOTP_UT_uniform", "AOTP_CTT_indexed"]


def _tok(spec):
    """spec: ["legacy", mode, max_grid_size] | ["enum", mode] | ["modular", mode]"""
    import maze_dataset.tokenization as t

    kind, mode = spec[0], t.TokenizationMode[spec[1]]
    if kind == "legacy":
        return t.MazeTokenizer(tokenization_mode=mode, max_grid_size=spec[2])
    if kind == "enum":
        return mode
    return t.MazeTokenizerModular.from_legacy(mode)


def _tok_name(spec):
    return ":".join(str(x) for x in spec)


def _is_ctt(spec):
    return spec[1] == "AOTP_CTT_indexed"


def _same_maze(a, b):
    """None if maze b equals maze a (kind, connection structure, endpoints, solution), else what differs"""
    if type(a).__name__ != type(b).__name__:
        return f"kind {type(b).__name__} instead of {type(a).__name__}"
    ca, cb = T.arr_concrete(a.connection_list), np.asarray(b.connection_list)
    if ca.shape != cb.shape or not np.array_equal(ca.astype(bool), cb.astype(bool)):
        return f"connection structure {cb.astype(int).tolist()} (shape {cb.shape})"
    if hasattr(a, "start_pos"):
        for f in ("start_pos", "end_pos"):
            va, vb = [int(x) for x in getattr(a, f)], [int(x) for x in getattr(b, f)]
            if va != vb:
                return f"{f} {vb} instead of {va}"
    if hasattr(a, "solution"):
        sa = [tuple(int(x) for x in p) for p in a.solution]
        sb = [tuple(int(x) for x in p) for p in b.solution]
        if sa != sb:
            return f"solution {sb} instead of {sa}"
    return None


def _roundtrip(maze, tokspec, form, box=None):
    tok = _tok(tokspec)
    try:
        toks = maze.as_tokens(tok)
    except (PathAbort, Inconclusive):
        raise
    except BaseException as e:
        if not isinstance(e, Exception):
            raise
        if box is not None:
            box["tokens"] = None
        return f"as_tokens raised {type(e).__name__}: {str(e)[:160]}"
    if box is not None:
        box["tokens"] = list(toks) if isinstance(toks, list) else toks
    if not isinstance(toks, list) or not all(isinstance(x, str) for x in toks):
        return f"as_tokens returned {type(toks).__name__}, not a list of strings"
    arg = " ".join(toks) if form == "str" else list(toks)
    try:
        back = type(maze).from_tokens(arg, tok)
    except (PathAbort, Inconclusive):
        raise
    except BaseException as e:
        if not isinstance(e, Exception):
            raise
        return f"from_tokens raised {type(e).__name__}: {str(e)[:120]} on tokens {' '.join(toks)[:200]}"
    d = _same_maze(maze, back)
    if d is not None:
        return f"parsed back with {d}; tokens {' '.join(toks)[:200]}"
    return None


def _run_roundtrip(job):
    def run(ctx, pinned=None):
        with T.TokEnv(reps_only=job.get("reps", False), linked=job.get("linked", False)):
            maze, lat, ends = T.build_sym_maze(ctx, job["maze"])
            box = {}
            msg = _roundtrip(maze, job["tok"], job["form"], box)
        if msg is None and box.get("tokens") is not None:
            core.validate_path(ctx, box["tokens"], lambda inp: _real_tokens(job, inp), every=job.get("validate_every", 6), what="as_tokens")
        ctx.notes["msg"] = msg
        return [("from_tokens(as_tokens(maze)) is the same maze (kind, connections, start, end, solution)", z3.BoolVal(msg is None))]

    return run


def _real_tokens(job, inputs):
    """the same tokenization by the unpatched code (real numpy, the path's RNG draws scripted)"""
    maze = T.build_concrete_maze(inputs, job["maze"])
    with T.TokEnv(script=inputs, reps_only=job.get("reps", False), linked=job.get("linked", False)):
        return maze.as_tokens(_tok(job["tok"]))


def _replay_roundtrip(job, inputs, notes):
    maze = T.build_concrete_maze(inputs, job["maze"])
    if maze is None or (job["maze"].get("rowcol", True) and not T.rowcol_ok(np.asarray(maze.connection_list))):
        return None
    with T.TokEnv(script=inputs, reps_only=job.get("reps", False), linked=job.get("linked", False)):
        msg = _roundtrip(maze, job["tok"], job["form"])
    if msg is None:
        return None
    return f"roundtrip-differs:{job['tok'][0]} | tokenizer {_tok_name(job['tok'])}, tokens as {job['form']}: {msg}; {T.describe(maze)}"


# ------------------------------------------------------------------------------------------------ agree
def _edges_of_adjacency(adj_tokens, ctt):
    """multiset of unordered coordinate pairs listed in a legacy-format adjacency region"""
    out = Counter()
    i = 0
    while i < len(adj_tokens):
        a, i = T.parse_coord(adj_tokens, i, ut=not ctt)
        if adj_tokens[i] != "<-->":
            raise ValueError(f"expected <--> at {i}, got {adj_tokens[i]!r}")
        b, i = T.parse_coord(adj_tokens, i + 1, ut=not ctt)
        if adj_tokens[i] != ";":
            raise ValueError(f"expected ; at {i}, got {adj_tokens[i]!r}")
        i += 1
        out[frozenset([a, b])] += 1
    return out


def _agree(maze, mode):
    legacy = _tok(["legacy", mode, None])
    modular = _tok(["modular", mode])
    tl = maze.as_tokens(legacy)
    tm = maze.as_tokens(modular)
    ctt = mode == "AOTP_CTT_indexed"
    try:
        al, am = T.region(tl, "<ADJLIST_START>", "<ADJLIST_END>"), T.region(tm, "<ADJLIST_START>", "<ADJLIST_END>")
        rest_l = tl[:tl.index("<ADJLIST_START>") + 1] + tl[tl.index("<ADJLIST_END>"):]
        rest_m = tm[:tm.index("<ADJLIST_START>") + 1] + tm[tm.index("<ADJLIST_END>"):]
        el, em = _edges_of_adjacency(al, ctt), _edges_of_adjacency(am, ctt)
    except (ValueError, IndexError) as e:
        return f"token stream malformed ({e}); legacy {' '.join(tl)[:160]} / modular {' '.join(tm)[:160]}"
    if rest_l != rest_m:
        return f"tokens outside the adjacency list differ: legacy {rest_l} / modular {rest_m}"
    if el != em:
        return f"adjacency entries differ: legacy {sorted(map(sorted, el.elements()))} / modular {sorted(map(sorted, em.elements()))}"
    # both must list exactly the maze's connections, once
    cl = T.arr_concrete(maze.connection_list).astype(bool)
    want = Counter()
    n = cl.shape[1]
    for d in range(2):
        for i in range(n):
            for j in range(n):
                if cl[d, i, j]:
                    want[frozenset([(i, j), (i + (d == 0), j + (d == 1))])] += 1
    if el != want:
        return f"adjacency entries {sorted(map(sorted, el.elements()))} are not the maze's connections {sorted(map(sorted, want.elements()))}"
    return None


def _run_agree(job):
    def run(ctx, pinned=None):
        with T.TokEnv(reps_only=job.get("reps", True), linked=job.get("linked", False)):
            maze, lat, ends = T.build_sym_maze(ctx, job["maze"])
            msg = _agree(maze, job["mode"])
        return [("legacy and modular-equivalent tokens agree up to order/orientation of adjacency entries", z3.BoolVal(msg is None))]

    return run


def _replay_agree(job, inputs, notes):
    maze = T.build_concrete_maze(inputs, job["maze"])
    if maze is None:
        return None
    with T.TokEnv(script=inputs, reps_only=job.get("reps", True), linked=job.get("linked", False)):
        msg = _agree(maze, job["mode"])
    if msg is None:
        return None
    return f"legacy-modular-disagree | mode {job['mode']}: {msg}; {T.describe(maze)}"


# ------------------------------------------------------------------------------------------------ dataset
class _StubMaze:
    """stand-in maze whose tokenization is a fixed marker list (dataset-level behaviour is about order, limit, join)"""

    def __init__(self, k):
        self.k = k

    def as_tokens(self, tok):
        return [f"<M{self.k}>", "a", f"b{self.k}"]


def _dataset(kind, n_mazes):
    from maze_dataset import MazeDataset, MazeDatasetConfig

    cfg = MazeDatasetConfig(name="c07", grid_n=3, n_mazes=n_mazes)
    if kind == "stub":
        return MazeDataset(cfg, [_StubMaze(k) for k in range(n_mazes)])
    mazes = []
    from maze_dataset.maze.lattice_maze import LatticeMaze, SolvedMaze

    for k in range(n_mazes):
        cl = T.base_maze(3, "dfs" if k % 2 == 0 else "perc", 100 + k)
        m = LatticeMaze(connection_list=cl)
        comp = sorted(C_component(cl))
        mazes.append(SolvedMaze(connection_list=cl, solution=np.array(m.find_shortest_path(comp[0], comp[-1]))))
    return MazeDataset(cfg, mazes)


def C_component(cl):
    from symx import concrete as C

    # largest component's cells
    n = cl.shape[1]
    best = set()
    for i in range(n):
        for j in range(n):
            comp = C.component(cl, (i, j))
            if len(comp) > len(best):
                best = comp
    return best


def _normalise(tokens, ctt):
    """token list -> (non-adjacency tokens, multiset of adjacency edges): equality up to adjacency order/orientation"""
    if isinstance(tokens, str):
        tokens = tokens.split()
    adj = T.region(tokens, "<ADJLIST_START>", "<ADJLIST_END>")
    rest = tokens[:tokens.index("<ADJLIST_START>") + 1] + tokens[tokens.index("<ADJLIST_END>"):]
    return rest, _edges_of_adjacency(adj, ctt)


def _dataset_check(ds, kind, tokspec, limit, join):
    tok = _tok(tokspec) if kind != "stub" else object()
    got = ds.as_tokens(tok, limit=limit, join_tokens_individual_maze=join)
    lim = None if limit is None else int(limit)
    mazes = list(ds.mazes)[:lim]
    if not isinstance(got, list) or len(got) != len(mazes):
        return f"limit={lim} join={join}: {len(got) if isinstance(got, list) else type(got).__name__} items instead of {len(mazes)}"
    for k, (g, m) in enumerate(zip(got, mazes)):
        if join != isinstance(g, str):
            return f"limit={lim} join={join}: item {k} is a {type(g).__name__}"
        want = m.as_tokens(tok)
        if kind == "stub":
            if (g.split() if join else g) != want or (join and g != " ".join(want)):
                return f"limit={lim} join={join}: item {k} is {g!r}, the maze at position {k} tokenizes to {want}"
        else:
            if _normalise(g, _is_ctt(tokspec)) != _normalise(want, _is_ctt(tokspec)):
                return f"limit={lim} join={join}: item {k} is not the tokenization of maze {k}"
    return None


def _run_dataset(job):
    def run(ctx, pinned=None):
        ds = _dataset(job["kind"], job["n"])
        n = job["n"]
        which = ctx.choose(2)
        ctx.inputs["limit_none"] = z3.IntVal(which)
        if which == 0:
            limit = None
        else:
            limit = fresh_int("limit", -(n + 2), n + 2)
        j = ctx.choose(2)
        ctx.inputs["join"] = z3.IntVal(j)
        with T.TokEnv(script={} if job["kind"] == "real" else None):
            msg = _dataset_check(ds, job["kind"], job.get("tok"), limit, bool(j))
        return [("dataset.as_tokens == per-maze tokenization of mazes[:limit] in order, joined iff requested", z3.BoolVal(msg is None))]

    return run


def _replay_dataset(job, inputs, notes):
    ds = _dataset(job["kind"], job["n"])
    limit = None if inputs.get("limit_none", 0) == 0 else inputs.get("limit", 0)
    with T.TokEnv(script=inputs):
        msg = _dataset_check(ds, job["kind"], job.get("tok"), limit, bool(inputs.get("join", 0)))
    if msg is None:
        return None
    return f"dataset-tokens | MazeDataset.as_tokens ({job['kind']} mazes, {job['n']} items): {msg}"


# ------------------------------------------------------------------------------------------------ CrossHair lemmas
LEMMAS = {
    # name: (function in ch/c07_lemmas.py, per-condition timeout quick, thorough)
    "codec_ut": ("lemma_codec_ut", 240, 600),
    "is_coord_ut": ("lemma_is_coord_ut", 240, 600),
    "codec_ctt": ("lemma_codec_ctt", 240, 600),
    "not_coord_special": ("lemma_special_not_coord", 240, 600),
    "tokens_between": ("lemma_tokens_between", 420, 1500),
    "tokens_between_long": ("lemma_tokens_between_5", 0, 1500),
}


def _lemma_line(fn):
    src = (VERIF / "ch" / "c07_lemmas.py").read_text().splitlines()
    for i, l in enumerate(src):
        if l.startswith(f"def {fn}("):
            return i + 2
    raise Inconclusive(f"lemma {fn} not found")


def _run_crosshair(fn, timeout):
    env = dict(os.environ, PYTHONPATH=os.pathsep.join([os.environ.get("VERIF_REPO", ""), str(VERIF)]).strip(os.pathsep), VERIF_IN_VENV="1")
    cmd = [sys.executable, "-W", "ignore", "-m", "crosshair", "check", "--report_all", "--per_condition_timeout", str(timeout),
           "--per_path_timeout", str(max(10, timeout // 6)), f"{VERIF / 'ch' / 'c07_lemmas.py'}:{_lemma_line(fn)}"]
    p = subprocess.run(cmd, env=env, capture_output=True, text=True, timeout=timeout * 3 + 120, cwd=str(VERIF))
    return p.returncode, (p.stdout + p.stderr).strip()


def _run_lemma(job):
    def run(ctx, pinned=None):
        fn, tq, tt = LEMMAS[job["lemma"]]
        ctx.inputs["dummy"] = z3.IntVal(0)
        rc, out = _run_crosshair(fn, job["timeout"])
        ctx.notes["crosshair"] = out[-600:]
        if "Confirmed over all paths" in out:
            return [(f"CrossHair: {fn} confirmed over all paths", z3.BoolVal(True))]
        m = re.search(r"error: (.*)", out)
        if m:
            ctx.notes["cex"] = m.group(1)[:400]
            return [(f"CrossHair: {fn}", z3.BoolVal(False))]
        raise Inconclusive(f"CrossHair did not decide {fn} within {job['timeout']}s: {out[-300:]}")

    return run


def _replay_lemma(job, inputs, notes):
    """re-run the lemma's post-condition concretely on the arguments CrossHair reported"""
    import importlib

    cex = notes.get("cex", "")
    fn, _, _ = LEMMAS[job["lemma"]]
    m = re.search(r"when calling (\w+)\((.*)\)", cex)
    if not m:
        return None
    sys.path.insert(0, str(VERIF / "ch"))
    mod = importlib.import_module("c07_lemmas")
    try:
        args = eval(f"dict({m.group(2)})" if "=" in m.group(2) else f"({m.group(2)},)", {})  # noqa: S307 - CrossHair's own repr of ints/strs/lists
    except Exception:
        return None
    f = getattr(mod, fn)
    try:
        ok = mod.CHECKS[fn](*(args.values() if isinstance(args, dict) else args))
    except Exception as e:
        return f"codec-lemma:{job['lemma']} | {fn}{tuple(args.values()) if isinstance(args, dict) else args} raises {type(e).__name__}: {e}"
    if ok:
        return None
    return f"codec-lemma:{job['lemma']} | {fn} fails for {cex[:200]}"


# ------------------------------------------------------------------------------------------------ jobs
def warmup():
    core.STR_CONCRETISES = True


def _toks_for(n, quick):
    out = []
    for mode in MODES:
        out.append(["legacy", mode, None])
        out.append(["modular", mode])
    out.append(["legacy", "AOTP_UT_uniform", max(n, 3)])
    out.append(["legacy", "AOTP_CTT_indexed", max(n, 3)])
    out.append(["enum", "AOTP_UT_rasterized"])
    if not quick:
        out.append(["legacy", "AOTP_UT_rasterized", 50])
        out.append(["enum", "AOTP_CTT_indexed"])
        out.append(["enum", "AOTP_UT_uniform"])
    return out


KINDS = ["LatticeMaze", "TargetedLatticeMaze", "SolvedMaze"]


def _sym_positions(base, k, rng):
    n = base.shape[1]
    edges = [(d, i, j) for d in range(2) for i in range(n) for j in range(n) if (i + 1 < n if d == 0 else j + 1 < n)]
    idx = rng.choice(len(edges), size=min(k, len(edges)), replace=False)
    return [list(edges[int(i)]) for i in idx]


def _far_cells(cl):
    from symx import concrete as C

    comp = sorted(C_component(cl))
    s = comp[0]
    dist = C.bfs(cl, s)
    e = max(dist, key=lambda v: (dist[v], v))
    return [list(s), list(e)]


def jobs(tier, seed):
    q = tier == "quick"
    rng = np.random.default_rng(seed + 7)
    out = []
    core6 = [["legacy", m, None] for m in MODES] + [["modular", m] for m in MODES]
    # n = 2, untargeted: every maze under the precondition, every tokenizer spelling, both forms, every RNG outcome
    for tok in _toks_for(2, q):
        for form in ("list", "str"):
            if q and form == "str" and tok[0] == "enum":
                continue
            out.append(dict(h="roundtrip", maze=dict(n=2, kind="LatticeMaze", sym_bits="all"), tok=tok, form=form))
    # n = 2, targeted / solved: every maze, every endpoint pair; RNG outcomes by representatives
    for kind in KINDS[1:]:
        for k, tok in enumerate(core6 if q else _toks_for(2, q)):
            for form in (("list", "str") if not q else (("list", "str")[k % 2],)):
                out.append(dict(h="roundtrip", maze=dict(n=2, kind=kind, sym_bits="all", ends="sym"), tok=tok, form=form, reps=True))
    # solved mazes whose stored solution is ANY simple path of the maze (not the solver's choice): 2x2 all mazes, 3x3 around a percolation base
    for k, tok in enumerate(core6):
        out.append(dict(h="roundtrip", maze=dict(n=2, kind="SolvedMaze", sym_bits="all", ends=[[0, 0], [0, 0]], path="any", maxlen=4), tok=tok, form=("list", "str")[k % 2], reps=True))
    b_any = T.base_maze(3, "perc", seed * 100 + 77)
    for k, tok in enumerate([["legacy", "AOTP_UT_uniform", None], ["modular", "AOTP_CTT_indexed"]] if q else core6):
        out.append(dict(h="roundtrip", maze=dict(n=3, kind="SolvedMaze", base=b_any.astype(int).tolist(), sym_bits=_sym_positions(b_any, 2, rng), ends=[[0, 0], [0, 0]],
                                                 path="any", maxlen=4, rowcol=False), tok=tok, form=("str", "list")[k % 2], reps=True, linked=True))
    # n = 3: generated base mazes (tree / percolation) with 3 symbolic bits
    n3_bases = [("dfs", 1), ("perc", 2)] if q else [("dfs", 1), ("perc", 2), ("dfs", 3), ("perc", 4), ("dfs", 5), ("perc", 6)]
    for bk, bs in n3_bases:
        base = T.base_maze(3, bk, seed * 100 + bs)
        symb = _sym_positions(base, 3, rng)
        for kind in KINDS:
            for k, tok in enumerate(_toks_for(3, q)):
                form = ("list", "str")[(bs + k) % 2]
                out.append(dict(h="roundtrip", maze=dict(n=3, kind=kind, base=base.astype(int).tolist(), sym_bits=symb, ends=_far_cells(base)), tok=tok, form=form, reps=True))
    if not q:
        for tok in (["legacy", "AOTP_UT_uniform", None], ["modular", "AOTP_CTT_indexed"]):
            out.append(dict(h="roundtrip", maze=dict(n=3, kind="LatticeMaze", sym_bits="all"), tok=tok, form="list", reps=True, max_seconds=3000))
            out.append(dict(h="roundtrip", maze=dict(n=3, kind="TargetedLatticeMaze", base=T.base_maze(3, "dfs", seed + 31).astype(int).tolist(), sym_bits=[], ends="sym"),
                            tok=tok, form="str", reps=True))
    # larger grids (multi-digit coordinates from n = 11): generated bases, 2 symbolic bits, far-apart endpoints
    sizes = [4, 7, 10, 11, 12, 13, 16, 20] if q else list(range(4, 21))
    for n in sizes:
        for bk in (("dfs", "perc") if (not q or n in (11, 12, 20)) else (("dfs",) if n % 2 else ("perc",))):
            base = T.base_maze(n, bk, seed * 100 + n)
            symb = _sym_positions(base, 2, rng)
            ends = _far_cells(base)
            if T.rowcol_ok(base):
                for kind in (KINDS if (not q or n in (11, 12)) else ["SolvedMaze"]):
                    for k, tok in enumerate([["legacy", "AOTP_UT_uniform", None], ["modular", "AOTP_UT_uniform"], ["legacy", "AOTP_CTT_indexed", n], ["modular", "AOTP_CTT_indexed"]]
                                            + ([] if q else [["legacy", "AOTP_UT_rasterized", n], ["enum", "AOTP_UT_uniform"]])):
                        form = ("str", "list")[(n + k) % 2]
                        out.append(dict(h="roundtrip", maze=dict(n=n, kind=kind, base=base.astype(int).tolist(), sym_bits=symb, ends=ends), tok=tok, form=form, reps=True, linked=n >= 10))
            for mode in MODES:
                if q and mode == "AOTP_UT_rasterized" and n != 12:
                    continue
                out.append(dict(h="agree", maze=dict(n=n, kind="SolvedMaze", base=base.astype(int).tolist(), sym_bits=symb, ends=ends, rowcol=False), mode=mode, linked=True))
    # agreement on small grids, all mazes (no parsing back, so no precondition)
    for mode in MODES:
        out.append(dict(h="agree", maze=dict(n=2, kind="LatticeMaze", sym_bits="all", rowcol=False), mode=mode))
        out.append(dict(h="agree", maze=dict(n=2, kind="SolvedMaze", base=[[[1, 1], [0, 0]], [[1, 0], [0, 0]]], sym_bits=[[1, 1, 0]], ends="sym", rowcol=False), mode=mode))
        out.append(dict(h="agree", maze=dict(n=2, kind="TargetedLatticeMaze", base=[[[1, 0], [0, 0]], [[0, 0], [1, 0]]], sym_bits=[[0, 0, 1]], ends="sym", rowcol=False), mode=mode))
    for bk, bs in n3_bases[:2]:
        base = T.base_maze(3, bk, seed * 100 + bs)
        for mode in MODES:
            out.append(dict(h="agree", maze=dict(n=3, kind="SolvedMaze", base=base.astype(int).tolist(), sym_bits=_sym_positions(base, 3, rng), ends=_far_cells(base), rowcol=False), mode=mode))
    # dataset level
    for n in (0, 1, 3) if q else (0, 1, 2, 3, 5):
        out.append(dict(h="dataset", kind="stub", n=n))
    for tok in (["legacy", "AOTP_UT_uniform", None], ["modular", "AOTP_CTT_indexed"]):
        out.append(dict(h="dataset", kind="real", n=3, tok=tok))
    # CrossHair lemmas
    for name, (fn, tq, tt) in LEMMAS.items():
        t = tq if q else tt
        if t:
            out.append(dict(h="lemma", lemma=name, timeout=t, max_seconds=3 * t + 200))
    out.sort(key=lambda j: 0 if j["h"] == "lemma" else 1)
    out.append(dict(_alias.ALIAS_JOB))  # results must not alias library state, arguments or each other (props/alias_common.py)
    return out


_P = dict(np_modules=[], stub_ascii=True)
HARNESSES = {
    "roundtrip": dict(run=_run_roundtrip, replay=_replay_roundtrip, patch=_P),
    "agree": dict(run=_run_agree, replay=_replay_agree, patch=_P),
    "dataset": dict(run=_run_dataset, replay=_replay_dataset, patch=_P),
    "lemma": dict(run=_run_lemma, replay=_replay_lemma, patch=_P, validate_every=0),
}
HARNESSES["alias"] = _alias.alias_harness("C07")

MANIFEST = dict(engine="symx", also=["crosshair"],
                technique="solver-based bounded checking: path-forking symbolic execution of the real Python code over z3 (round trips, agreement, dataset level) "
                          "plus CrossHair symbolic execution of the string codec and tokens_between lemmas (run from a harness instance of the same command)")
META = dict(
    functions=["LatticeMaze.as_tokens/_as_tokens/_as_coords_and_special_AOTP/_as_adj_list_tokens", "LatticeMaze.from_tokens/_from_tokens_AOTP/from_adj_list",
               "TargetedLatticeMaze._get_start_pos_tokens/_get_end_pos_tokens", "SolvedMaze._get_solution_tokens/from_targeted_lattice_maze",
               "MazeTokenizer.coords_to_strings/strings_to_coords", "token_utils.tokens_between/get_adj_list_tokens/get_origin_tokens/get_target_tokens/get_path_tokens",
               "token_utils.strings_to_coords/coords_string_split_UT/coord_str_to_tuple/str_is_coord/_coord_to_strings_UT/_coord_to_strings_indexed",
               "token_utils.connection_list_to_adj_list", "MazeTokenizerModular.from_legacy/is_legacy_equivalent/to_tokens (legacy-equivalent configurations)",
               "MazeDataset.as_tokens"],
    bounds=dict(
        quick="roundtrip: 2x2 all mazes under the precondition x all endpoint pairs x 9 tokenizer spellings x list/str; 3x3: 3 generated bases x 3 symbolic bits; "
              "grids 4,7,10,11,12,13,16,20: generated bases x 2 symbolic bits; RNG draws as inputs (<=4 flips exhaustive, else 3 patterns); "
              "CrossHair: codec lemmas for 0 <= i,j < 1000, tokens_between on lists of length <= 4 (tokens abstracted to ints)",
        thorough="3x3 all 4096 mazes for two tokenizers, 6 bases, every grid size 4..20, all spellings, tokens_between up to length 5"),
    degenerate=dict(roundtrip="tokens are Python strings: rendering forks every bit and coordinate it prints, so paths = (mazes x endpoints x RNG outcomes) in the bound - "
                              "exhaustive enumeration of the bounded space, the solver only prunes the precondition",
                    agree="as roundtrip", dataset="limit is forked to each value in [-(n+2), n+2] and None",
                    lemma="none: CrossHair explores the codec symbolically over all coordinates in range"),
    stubs=T.STUBS,
    outside=["grids above 20; 3x3 beyond the sampled bases in the quick tier", "the regex coords_string_split_UT on symbolic strings (only ever run on concrete strings)",
             "RNG outcomes beyond the representatives when more than 4 independent flips / 3 shuffled items occur",
             "str tokens in the tokens_between lemma (abstracted to ints; the function only compares tokens with ==)"],
    assumptions=["solutions are the solver's shortest paths, except in the 'any simple path' instances (2x2 all mazes, 3x3 around one base)", "precondition of parsing back: every row and column index occurs in some connection (stated by the property)"],
    engine="symx path-forking executor over z3 " + z3.get_version_string() + "; CrossHair 0.0.110 for the lemmas",
)

META.setdefault("degenerate", {})["alias"] = _alias.ALIAS_META
