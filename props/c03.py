"""C03 - every item of a generated dataset is a correctly solved maze (serial generation).

The real `_maze_gen_init_worker` / `_generate_maze_helper` / `MazeDataset.generate` run with every RNG
draw symbolic (see gen_common); the stored solution is checked against the reachability oracle on the
final graph (which stays symbolic for percolation generators).
"""

from __future__ import annotations

import itertools
import types

import numpy as np
import z3

from props import gen_common as G
from props.c01 import _splits
from symx import concrete as C

from props import alias_common as _alias

ID = "C03"

ENDPOINT_OPTIONS = [
    {},
    dict(endpoints_not_equal=True),
    dict(deadend_start=True),
    dict(deadend_end=True, endpoints_not_equal=True),
    dict(deadend_start=True, deadend_end=True),
    dict(allowed_start=[[0, 0]]),
    dict(allowed_end=[[0, 0], [1, 1]], endpoints_not_equal=True),
    dict(allowed_start=[[0, 0], [0, 1]], allowed_end=[[0, 0], [0, 1]], endpoints_not_equal=True),
    dict(allowed_start=[[1, 0]], allowed_end=[[1, 0]]),
    # options combined: an allowed list AND the dead-end requirement for the same endpoint
    dict(allowed_start=[[0, 0], [0, 1], [1, 0], [1, 1]], deadend_start=True),
    dict(allowed_end=[[0, 0], [0, 1], [1, 1]], deadend_end=True, endpoints_not_equal=True),
    dict(allowed_start=[[0, 0], [1, 1], [0, 1]], allowed_end=[[0, 1], [1, 0], [1, 1]], deadend_start=True, deadend_end=True),
]


def _ek(opts):
    out = {}
    for k, v in opts.items():
        out[k] = [tuple(x) for x in v] if isinstance(v, list) else v
    return out


def jobs(tier, seed):
    q = tier == "quick"
    out = []
    gens_kw = [("gen_dfs", {}), ("gen_dfs", dict(accessible_cells=3)), ("gen_dfs", dict(do_forks=False)), ("gen_prim", {}),
               ("gen_wilson", {}), ("gen_percolation", {}), ("gen_percolation", dict(p=1.0)), ("gen_dfs_percolation", {}),
               ("gen_dfs_percolation", dict(p=0.5, accessible_cells=3))]
    for gen, kw in gens_kw:
        for eo in ENDPOINT_OPTIONS:
            out.append(dict(h="item", gen=gen, n=2, kwargs=kw, endpoint=eo, identity=[], K=8 if gen == "gen_wilson" else None))
    out.append(dict(h="item", gen="gen_dfs", n=2, kwargs={}, endpoint={}, identity=[1], K=None))
    # 3x3
    g3 = [("gen_dfs", {})] if q else [("gen_dfs", {}), ("gen_dfs", dict(accessible_cells=5)), ("gen_dfs", dict(max_tree_depth=3)), ("gen_percolation", {}),
                                       ("gen_dfs_percolation", {}), ("gen_prim", dict(accessible_cells=4))]
    for gen, kw in g3:
        eos = [{}, dict(deadend_start=True, deadend_end=True, endpoints_not_equal=True),
               dict(allowed_start=[[0, 0], [1, 1], [2, 1], [1, 2]], deadend_start=True)] if q else ENDPOINT_OPTIONS
        for eo in eos:
            for sp in _splits({"rng0": [0, 1], "rng1": [0, 1]}):
                if any(v[0] == "notin" for v in sp.values()):
                    continue  # start coordinates on 3x3 are drawn from {0,1}^2 (catch-all job below)
                out.append(dict(h="item", gen=gen, n=3, kwargs=kw, endpoint=eo, identity=[], K=None, split=sp, max_seconds=3300))
            out.append(dict(h="item", gen=gen, n=3, kwargs=kw, endpoint=eo, identity=[], K=None, max_seconds=3300,
                            split={"rng0": ["notin", [0, 1]]}))
            out.append(dict(h="item", gen=gen, n=3, kwargs=kw, endpoint=eo, identity=[], K=None, max_seconds=3300,
                            split={"rng0": ["eq", 0], "rng1": ["notin", [0, 1]]}))
            out.append(dict(h="item", gen=gen, n=3, kwargs=kw, endpoint=eo, identity=[], K=None, max_seconds=3300,
                            split={"rng0": ["eq", 1], "rng1": ["notin", [0, 1]]}))
    # cyclic 3x3 mazes through the whole item pipeline: percolation whose 18 edge draws are fixed to a seeded base maze (dense, so
    # that it has cycles) except for 3 draws that stay symbolic; the endpoint draws stay symbolic (all 72 ordered pairs)
    rng = np.random.default_rng(seed + 303)
    for k in range(4 if q else 40):
        free = sorted(int(x) for x in rng.choice(18, size=3 if q else 4, replace=False))
        dens = [0.85, 0.7, 0.55][k % 3]
        sp = {f"unit{i}": ["unit", 0.0 if rng.random() < dens else 0.99] for i in range(18) if i not in free}
        for eo in ([{}] if q else [{}, dict(deadend_start=True), dict(allowed_end=[[0, 0], [1, 1], [2, 2]], endpoints_not_equal=True)]):
            out.append(dict(h="item", gen="gen_percolation", n=3, kwargs=dict(p=0.5), endpoint=eo, identity=[], K=None, split=sp, max_seconds=3300,
                            label=f"item:gen_percolation 3x3 around base #{k} (free draws {free}) endpoint={eo}"))
    # the solver the item pipeline relies on for "is a shortest route", on every 3x3 connection structure (all 12 bits symbolic - the most
    # general output of the percolation generators) for 12 endpoint pairs: the harness of C02, shared
    for s_, e_ in ([((0, 0), (2, 2)), ((2, 2), (0, 0)), ((0, 2), (2, 0)), ((1, 1), (0, 0)), ((0, 1), (2, 1)), ((1, 0), (1, 2)), ((2, 0), (0, 1)), ((0, 0), (0, 2)), ((2, 1), (0, 0)),
                    ((1, 2), (0, 1)), ((0, 0), (1, 1)), ((2, 0), (2, 2))] if q else [(a, b) for a in itertools.product(range(3), repeat=2) for b in itertools.product(range(3), repeat=2) if a != b]):
        out.append(dict(h="solver", r=3, c=3, s=list(s_), e=list(e_), max_seconds=3300))
    # dataset level: count and every item
    for gen, kw in [("gen_dfs", {}), ("gen_percolation", dict(p=1.0))]:
        for nm in ([0, 1] if q else [0, 1, 2]):
            out.append(dict(h="dataset", gen=gen, n=2, kwargs=kw, endpoint={}, n_mazes=nm, max_seconds=3300))
    # the endpoint options must also survive the way MazeDataset.generate hands the configuration to its workers
    # (it rebuilds it through load(serialize())): every option combination through generate itself
    for eo in ENDPOINT_OPTIONS[1:]:
        out.append(dict(h="dataset", gen="gen_dfs", n=2, kwargs={}, endpoint=eo, n_mazes=1, max_seconds=3300))
    out.append(dict(_alias.ALIAS_JOB))  # results must not alias library state, arguments or each other (props/alias_common.py)
    out[0]["twin"] = True
    return out


def _cfg(job, n_mazes=1):
    from maze_dataset import MazeDatasetConfig
    from maze_dataset.generation.generators import GENERATORS_MAP

    return MazeDatasetConfig(name="c03", grid_n=job["n"], n_mazes=n_mazes, maze_ctor=GENERATORS_MAP[job["gen"]],
                             maze_ctor_kwargs=dict(job["kwargs"]), endpoint_kwargs=_ek(job["endpoint"]))


def warmup():
    # the first config construction pays for lazy imports inside set_reproducibility; do it once before forking
    _cfg(dict(n=2, gen="gen_dfs", kwargs={}, endpoint={}))


class _Proc:
    def __init__(self, identity):
        self._identity = tuple(identity)


def _mp_stub(identity):
    import multiprocessing as real

    return types.SimpleNamespace(current_process=lambda: _Proc(identity), Pool=real.Pool, Process=real.Process)


def _item_obligations(job, sm):
    n = job["n"]
    obs = [("item is a SolvedMaze of the configured grid size",
            z3.BoolVal(type(sm).__name__ == "SolvedMaze" and tuple(sm.connection_list.shape) == (2, n, n)))]
    lat = G.lattice_of_output(sm.connection_list, n, n)
    obs += G.solution_obligations(lat, n, n, sm.solution, sm.start_pos, sm.end_pos, _ek(job["endpoint"]))
    return obs


def _run_item(job):
    cfg = _cfg(job)

    def run(ctx, pinned=None):
        import maze_dataset.dataset.maze_dataset as md

        with G.GenEnv(split=job.get("split"), walk_bound=job.get("K"), extra_np_modules=["maze_dataset.dataset.maze_dataset"]):
            old_mp = md.multiprocessing
            md.multiprocessing = _mp_stub(job["identity"])
            try:
                md._maze_gen_init_worker(cfg)
                try:
                    sm = md._generate_maze_helper(0)
                except ValueError as e:
                    msg = " ".join(str(a) for a in e.args)
                    # documented outcomes: no valid endpoints / component too small to hold two endpoints
                    documented = ("no valid start or end positions" in msg or "larger sample than population" in msg
                                  or "empty range" in msg or "low >= high" in msg)
                    return [("only the documented ValueErrors escape generation", z3.BoolVal(documented))]
            finally:
                md.multiprocessing = old_mp
            return _item_obligations(job, sm)

    return run


def _run_dataset(job):
    cfg = _cfg(job, job["n_mazes"])

    def run(ctx, pinned=None):
        import maze_dataset.dataset.maze_dataset as md
        from maze_dataset import MazeDataset

        with G.GenEnv(split=job.get("split"), extra_np_modules=["maze_dataset.dataset.maze_dataset"]):
            old_mp = md.multiprocessing
            md.multiprocessing = _mp_stub([])
            try:
                try:
                    ds = MazeDataset.generate(cfg, gen_parallel=False)
                except ValueError:
                    return [("documented ValueError", z3.BoolVal(True))]
            finally:
                md.multiprocessing = old_mp
        obs = [("dataset has exactly the configured number of elements", z3.BoolVal(len(ds) == job["n_mazes"] and len(ds.mazes) == job["n_mazes"])),
               ("configured maze count unchanged", z3.BoolVal(ds.cfg.n_mazes == job["n_mazes"]))]
        for sm in ds.mazes:
            obs += _item_obligations(job, sm)
        return obs

    return run


def _concrete_item(job, sm):
    n = job["n"]
    cl = np.asarray(sm.connection_list)
    if type(sm).__name__ != "SolvedMaze" or cl.shape != (2, n, n):
        return f"item-kind | {type(sm).__name__} shape {cl.shape}"
    why = C.check_solution(cl, sm.solution)
    tag = f"{job['gen']}{job['kwargs']} endpoint={job['endpoint']} n={n}: solution={np.asarray(sm.solution).tolist()} connection_list={cl.astype(int).tolist()}"
    if why:
        return f"item-solution-invalid | {why}; {tag}"
    sol = [tuple(int(x) for x in p) for p in sm.solution]
    s, e = tuple(int(x) for x in sm.start_pos), tuple(int(x) for x in sm.end_pos)
    if sol[0] != s or sol[-1] != e:
        return f"item-endpoints-mismatch | start_pos {s} end_pos {e}; {tag}"
    ek = _ek(job["endpoint"])
    special = any(ek.get(k) for k in ("allowed_start", "allowed_end", "deadend_start", "deadend_end"))
    if (not special or ek.get("endpoints_not_equal")) and s == e:
        return f"item-endpoints-equal | {tag}"
    if ek.get("allowed_start") is not None and s not in set(ek["allowed_start"]):
        return f"item-start-not-allowed | {tag}"
    if ek.get("allowed_end") is not None and e not in set(ek["allowed_end"]):
        return f"item-end-not-allowed | {tag}"
    if ek.get("deadend_start") and C.degree(cl, s) != 1:
        return f"item-start-not-deadend | {tag}"
    if ek.get("deadend_end") and C.degree(cl, e) != 1:
        return f"item-end-not-deadend | {tag}"
    return None


def _replay_item(job, inputs, notes):
    import maze_dataset.dataset.maze_dataset as md

    cfg = _cfg(job)
    with G.ScriptedEnv(inputs, extra_np_modules=["maze_dataset.dataset.maze_dataset"]):
        old_mp = md.multiprocessing
        md.multiprocessing = _mp_stub(job["identity"])
        try:
            md._maze_gen_init_worker(cfg)
            try:
                sm = md._generate_maze_helper(0)
            except ValueError as e:
                msg = " ".join(str(a) for a in e.args)
                if ("no valid start or end positions" in msg or "larger sample than population" in msg or "empty range" in msg or "low >= high" in msg):
                    return None
                return f"item-undocumented-error | {job['gen']}{job['kwargs']} endpoint={job['endpoint']} n={job['n']}: ValueError {msg[:200]}"
        finally:
            md.multiprocessing = old_mp
    return _concrete_item(job, sm)


def _replay_dataset(job, inputs, notes):
    import maze_dataset.dataset.maze_dataset as md
    from maze_dataset import MazeDataset

    cfg = _cfg(job, job["n_mazes"])
    with G.ScriptedEnv(inputs, extra_np_modules=["maze_dataset.dataset.maze_dataset"]):
        old_mp = md.multiprocessing
        md.multiprocessing = _mp_stub([])
        try:
            try:
                ds = MazeDataset.generate(cfg, gen_parallel=False)
            except ValueError:
                return None
        finally:
            md.multiprocessing = old_mp
    if len(ds) != job["n_mazes"]:
        return f"dataset-count | configured {job['n_mazes']} got {len(ds)}"
    for sm in ds.mazes:
        m = _concrete_item(job, sm)
        if m:
            return m
    return None


_PATCH = dict(np_modules=[], stub_ascii=True)
def _solver_harness():
    from props import c02

    return dict(run=c02._run_astar, replay=c02._replay, real_sig=c02._real_sig, pinned=c02._pinned)


HARNESSES = {"item": dict(run=_run_item, replay=_replay_item, patch=_PATCH), "solver": _solver_harness(),
             "dataset": dict(run=_run_dataset, replay=_replay_dataset, patch=_PATCH)}
HARNESSES["alias"] = _alias.alias_harness("C03")

META = dict(
    functions=["_maze_gen_init_worker", "_generate_maze_helper", "MazeDataset.generate (serial branch)", "LatticeMaze.generate_random_path",
               "LatticeMaze.get_connected_component", "LatticeMaze.find_shortest_path", "SolvedMaze.__init__", "SolvedMaze.from_lattice_maze",
               "TargetedLatticeMaze.__post_init__", "all five generators"],
    bounds=dict(
        quick="every RNG draw symbolic; grid_n=2 for all five generators (+ constrained variants) x 12 endpoint-option combinations (single options and allowed-list + dead-end combined); grid_n=3 for gen_dfs "
              "x 3 endpoint combinations; find_shortest_path on all 4096 connection structures of the 3x3 grid for 12 endpoint pairs (thorough: all 72); percolation around 4 seeded base mazes of edge density 0.55-0.85 (cyclic) with 3 of the 18 edge draws symbolic and all endpoint draws symbolic; MazeDataset.generate with n_mazes in {0,1} at grid_n=2 (n_mazes=1 for every endpoint-option combination); Wilson walk bound K=8",
        thorough="grid_n=3 also for constrained dfs, prim, percolation, dfs_percolation x all 12 endpoint combinations; n_mazes up to 2",
    ),
    degenerate=dict(item="for tree generators every path is one concrete random execution (enumeration of the RNG decision tree); "
                         "percolation variants keep the edge bits symbolic through component search and A*"),
    stubs=G.STUBS + ["multiprocessing.current_process in maze_dataset.py -> object with the chosen _identity (serial: (), worker: (1,))",
                     "np.random.seed in maze_dataset.py -> no-op (seeding is the subject of C04)"],
    outside=["parallel generation: Pool scheduling, imap ordering and process identity are OS / multiprocessing behaviour that no symbolic executor "
             "here can model; workers run the same _generate_maze_helper that is covered here for every RNG state",
             "grid_n > 3", "endpoint options off the listed combinations", "Wilson executions longer than K"],
    assumptions=["ValueError outcomes accepted as documented: 'no valid start or end positions found', sampling two endpoints from a one-cell component, "
                 "empty end set after removing the start"],
)

META.setdefault("degenerate", {})["alias"] = _alias.ALIAS_META
