"""C09 - maze objects are values: total structural equality, consistent hash, valid ends."""

from __future__ import annotations

import itertools

import numpy as np
import z3

from symx.core import Inconclusive, SBool, SInt, cur, fresh_bool, fresh_int, is_sym, zb, zi
from symx.harness import SNP, stubs_description
from symx.snp import SArr

from props import alias_common as _alias

ID = "C09"
KINDS = ["LatticeMaze", "TargetedLatticeMaze", "SolvedMaze"]


def _cls(name):
    import maze_dataset.maze.lattice_maze as lm

    return getattr(lm, name)


# ------------------------------------------------------------------------------- constructor bounds
def _run_bounds(job):
    kind, r, c, L = job["kind"], job["r"], job["c"], job.get("L", 2)

    def run(ctx, pinned=None):
        cl = np.zeros((2, r, c), dtype=np.bool_)
        if kind == "TargetedLatticeMaze":
            s = (fresh_int("si"), fresh_int("sj"))
            e = (fresh_int("ei"), fresh_int("ej"))
            ends = [(ctx.inputs["si"], ctx.inputs["sj"]), (ctx.inputs["ei"], ctx.inputs["ej"])]
            ctor = lambda: _cls(kind)(connection_list=cl, start_pos=SNP.array([s[0], s[1]]), end_pos=SNP.array([e[0], e[1]]))
        else:
            cells = [(fresh_int(f"p{k}i"), fresh_int(f"p{k}j")) for k in range(L)]
            ends = [(ctx.inputs["p0i"], ctx.inputs["p0j"]), (ctx.inputs[f"p{L - 1}i"], ctx.inputs[f"p{L - 1}j"])]
            ctor = lambda: _cls(kind)(connection_list=cl, solution=SNP.array([[i, j] for i, j in cells]))
        inside = z3.And(*[z3.And(i >= 0, i < r, j >= 0, j < c) for i, j in ends])
        try:
            m = ctor()
        except ValueError:
            return [("ValueError only for an endpoint outside the grid", z3.Not(inside))]
        return [("accepted only when both endpoints are inside the grid", inside)]

    return run


def _replay_bounds(job, inputs, notes):
    kind, r, c, L = job["kind"], job["r"], job["c"], job.get("L", 2)
    cl = np.zeros((2, r, c), dtype=np.bool_)
    if kind == "TargetedLatticeMaze":
        ends = [(inputs["si"], inputs["sj"]), (inputs["ei"], inputs["ej"])]
        ctor = lambda: _cls(kind)(connection_list=cl, start_pos=ends[0], end_pos=ends[1])
    else:
        cells = [(inputs[f"p{k}i"], inputs[f"p{k}j"]) for k in range(L)]
        ends = [cells[0], cells[-1]]
        ctor = lambda: _cls(kind)(connection_list=cl, solution=np.array(cells))
    inside = all(0 <= i < r and 0 <= j < c for i, j in ends)
    try:
        ctor()
        raised = False
    except ValueError:
        raised = True
    if raised == inside:
        return (f"ends-{'rejected-inside' if raised else 'accepted-outside'}:{kind} | {kind} on {r}x{c} with endpoints {ends}: "
                f"{'ValueError although inside' if raised else 'accepted although outside the grid'}")
    return None


# ----------------------------------------------------------------------------------------- equality
def _sym_maze(kind, r, c, tag, L, sol_dtype=None, invariant=False):
    """maze of `kind` whose compared fields are symbolic; returns (maze, field terms dict)"""
    ctx = cur()
    cl = SNP.zeros((2, r, c), dtype=np.bool_)
    terms = {}
    for d in range(2):
        for i in range(r):
            for j in range(c):
                if invariant and ((d == 0 and i == r - 1) or (d == 1 and j == c - 1)):
                    continue  # boundary entries stay False (representation invariant)
                b = fresh_bool(f"{tag}c_{d}_{i}_{j}")
                cl.o[d, i, j] = b
                terms[("c", d, i, j)] = ctx.inputs[f"{tag}c_{d}_{i}_{j}"]
    if kind == "LatticeMaze":
        return _cls(kind)(connection_list=cl), terms
    if kind == "TargetedLatticeMaze":
        pts = []
        for nm in ("s", "e"):
            i, j = fresh_int(f"{tag}{nm}i", 0, r - 1), fresh_int(f"{tag}{nm}j", 0, c - 1)
            pts.append((i, j))
            terms[(nm, 0)], terms[(nm, 1)] = ctx.inputs[f"{tag}{nm}i"], ctx.inputs[f"{tag}{nm}j"]
        m = _cls(kind)(connection_list=cl, start_pos=SNP.array(list(pts[0])), end_pos=SNP.array(list(pts[1])))
        return m, terms
    cells = []
    for k in range(L):
        i, j = fresh_int(f"{tag}p{k}i", 0, r - 1), fresh_int(f"{tag}p{k}j", 0, c - 1)
        cells.append([i, j])
        terms[("p", k, 0)], terms[("p", k, 1)] = ctx.inputs[f"{tag}p{k}i"], ctx.inputs[f"{tag}p{k}j"]
    terms[("L",)] = L
    m = _cls(kind)(connection_list=cl, solution=SNP.array(cells))
    return m, terms


def _fields_equal(k1, t1, shape1, k2, t2, shape2):
    """oracle: same kind and identical connection structure, start, end, solution"""
    if k1 != k2 or shape1 != shape2:
        return z3.BoolVal(False)
    if k1 == "SolvedMaze" and t1[("L",)] != t2[("L",)]:
        return z3.BoolVal(False)
    conds = []
    for key in t1:
        if key == ("L",):
            continue
        conds.append(t1[key] == t2[key])
    return z3.And(*conds)


def _comparison_history():
    """earlier comparisons a process may have made: pairs of distinct objects of every kind, base kinds first.
    Equality of two mazes must not depend on which other mazes were compared before."""
    cl = np.zeros((2, 2, 2), dtype=np.bool_)
    cl[1, 0, 0] = True
    cl2 = cl.copy()
    cl2[0, 0, 0] = True
    pairs = [(_cls("LatticeMaze")(connection_list=cl), _cls("LatticeMaze")(connection_list=cl2)),
             (_cls("LatticeMaze")(connection_list=cl), _cls("LatticeMaze")(connection_list=cl.copy())),
             (_cls("TargetedLatticeMaze")(connection_list=cl, start_pos=(0, 0), end_pos=(0, 1)),
              _cls("TargetedLatticeMaze")(connection_list=cl.copy(), start_pos=(0, 0), end_pos=(0, 1)))]
    for a, b in pairs:
        try:
            a == b
            a != b
        except Exception:
            pass


def _run_eq(job):
    k1, k2 = job["k1"], job["k2"]
    (r1, c1), (r2, c2) = job["shape1"], job["shape2"]
    L1, L2 = job.get("L1", 2), job.get("L2", 2)

    def run(ctx, pinned=None):
        m1, t1 = _sym_maze(k1, r1, c1, "a", L1)
        m2, t2 = _sym_maze(k2, r2, c2, "b", L2)
        if job.get("meta_differs"):
            m1.__dict__["generation_meta"] = dict(func_name="x")
            m2.__dict__["generation_meta"] = dict(func_name="y", other=1)
        exp = _fields_equal(k1, t1, (r1, c1), k2, t2, (r2, c2))
        obs = []
        _comparison_history()
        try:
            eq = m1 == m2
            ne = m1 != m2
        except Inconclusive:
            raise
        except Exception as e:
            return [(f"== / != never raise (got {type(e).__name__})", z3.BoolVal(False))]
        obs.append(("== returns a bool", z3.BoolVal(isinstance(eq, (bool, np.bool_)) or type(eq) is SBool)))
        obs.append(("== true exactly for same kind and identical compared fields", zb(eq) == exp))
        obs.append(("!= is the negation of ==", zb(ne) == z3.Not(exp)))
        try:
            obs.append(("identical object equals itself", z3.BoolVal(bool(m1 == m1) and not bool(m1 != m1))))
            obs.append(("comparison with non-maze objects is False, not an error",
                        z3.BoolVal((m1 == 3) is False and (m1 == None) is False and (m1 != "x") is True)))  # noqa: E711
        except Inconclusive:
            raise
        except Exception as e:
            obs.append((f"== with itself / other types never raises (got {type(e).__name__})", z3.BoolVal(False)))
        return obs

    return run


def _concrete_maze(kind, r, c, tag, L, inputs, sol_dtype=np.int64, ends_as_arrays=False):
    cl = np.zeros((2, r, c), dtype=np.bool_)
    for d in range(2):
        for i in range(r):
            for j in range(c):
                cl[d, i, j] = bool(inputs.get(f"{tag}c_{d}_{i}_{j}", False))
    if kind == "LatticeMaze":
        return _cls(kind)(connection_list=cl)
    if kind == "TargetedLatticeMaze":
        st, en = (inputs.get(f"{tag}si", 0), inputs.get(f"{tag}sj", 0)), (inputs.get(f"{tag}ei", 0), inputs.get(f"{tag}ej", 0))
        if ends_as_arrays:  # endpoints handed over as integer arrays of the given dtype (as loaders and tokenizers do) instead of tuples
            st, en = np.array(st, dtype=sol_dtype), np.array(en, dtype=sol_dtype)
        return _cls(kind)(connection_list=cl, start_pos=st, end_pos=en)
    cells = [[inputs.get(f"{tag}p{k}i", 0), inputs.get(f"{tag}p{k}j", 0)] for k in range(L)]
    return _cls(kind)(connection_list=cl, solution=np.array(cells, dtype=sol_dtype))


def _same_value(m1, m2):
    if type(m1) is not type(m2):
        return False
    if m1.connection_list.shape != m2.connection_list.shape or not (m1.connection_list == m2.connection_list).all():
        return False
    for f in ("start_pos", "end_pos", "solution"):
        if hasattr(m1, f):
            a, b = np.asarray(getattr(m1, f)), np.asarray(getattr(m2, f))
            if a.shape != b.shape or not (a == b).all():
                return False
    return True


def _replay_eq(job, inputs, notes):
    m1 = _concrete_maze(job["k1"], *job["shape1"], "a", job.get("L1", 2), inputs)
    m2 = _concrete_maze(job["k2"], *job["shape2"], "b", job.get("L2", 2), inputs)
    if job.get("meta_differs"):
        m1.__dict__["generation_meta"] = dict(func_name="x")
        m2.__dict__["generation_meta"] = dict(func_name="y", other=1)
    tag = f"{job['k1']}{tuple(job['shape1'])} vs {job['k2']}{tuple(job['shape2'])}"
    _comparison_history()
    try:
        eq, ne = m1 == m2, m1 != m2
    except Inconclusive:
        raise
    except Exception as e:
        return f"eq-raises:{job['k1']}=={job['k2']} | {tag}: comparison raised {type(e).__name__}: {str(e)[:120]}"
    exp = _same_value(m1, m2)
    if bool(eq) != exp or bool(ne) == exp:
        return (f"eq-wrong:{job['k1']}=={job['k2']} | {tag}: == gives {eq}, != gives {ne}, structurally equal: {exp}; "
                f"a={m1.connection_list.astype(int).tolist()} b={m2.connection_list.astype(int).tolist()} inputs={ {k: v for k, v in inputs.items() if 'c_' not in k} }")
    try:
        if not (m1 == m1) or (m1 != m1) or (m1 == 3) is not False or (m1 == None) is not False:  # noqa: E711
            return f"eq-self-or-foreign | {tag}"
    except Inconclusive:
        raise
    except Exception as e:
        return f"eq-raises-foreign:{job['k1']} | {tag}: {type(e).__name__}"
    return None


# -------------------------------------------------------------------------------------------- hash
def _run_hash(job):
    """equal mazes (built through different representations) have equal hashes; every kind is hashable.
    hash() needs concrete bytes, so the symbolic fields are forked to concrete values here."""
    kind, (r, c), L = job["kind"], job["shape"], job.get("L", 2)

    def run(ctx, pinned=None):
        m1, t1 = _sym_maze(kind, r, c, "a", L, invariant=True)
        try:
            h1 = hash(m1)
        except Inconclusive:
            raise
        except Exception as e:
            return [(f"every maze kind is hashable (got {type(e).__name__})", z3.BoolVal(False))]
        # all fields are concrete on this path now; rebuild an equal maze through other representations
        vals = {k: (bool(z3.is_true(ctx.solver.model().eval(v, model_completion=True))) if z3.is_bool(v) else
                    ctx.solver.model().eval(v, model_completion=True).as_long())
                for k, v in ctx.inputs.items()} if ctx.check() == z3.sat else {}
        obs = []
        for dt in (np.int8, np.int64, np.int16):
            m2 = _concrete_maze(kind, r, c, "a", L, vals, sol_dtype=dt, ends_as_arrays=True)
            try:
                same = bool(m1 == m2)
                h2 = hash(m2)
            except Inconclusive:
                raise
            except Exception as e:
                obs.append((f"hash/eq of an equal copy never raises (got {type(e).__name__})", z3.BoolVal(False)))
                continue
            obs.append((f"equal copy (solution / endpoint dtype {np.dtype(dt).name}) compares equal", z3.BoolVal(same)))
            obs.append((f"equal copy (solution / endpoint dtype {np.dtype(dt).name}) has the same hash", z3.BoolVal(h1 == h2)))
            obs.append(("a set de-duplicates equal mazes", z3.BoolVal(len({m1, m2}) == 1)))
        return obs

    return run


def _replay_hash(job, inputs, notes):
    kind, (r, c), L = job["kind"], job["shape"], job.get("L", 2)
    ms = [_concrete_maze(kind, r, c, "a", L, inputs, sol_dtype=dt, ends_as_arrays=arr) for dt, arr in ((np.int64, False), (np.int8, True), (np.int64, True), (np.int16, True))]
    try:
        hs = [hash(m) for m in ms]
    except Inconclusive:
        raise
    except Exception as e:
        return f"hash-raises:{kind} | hash({kind}) raised {type(e).__name__}: {str(e)[:100]}"
    if not (ms[0] == ms[1]) or len(set(hs)) != 1 or len(set(ms)) != 1:
        return f"hash-inconsistent:{kind} | equal {kind} mazes (solution / endpoint arrays of dtypes int64, int8, int16 and tuples): eq={ms[0] == ms[1]} hashes={hs} set size={len(set(ms))}"
    return None


# ------------------------------------------------------------------------------- dataset equality
def _run_dataset_eq(job):
    def run(ctx, pinned=None):
        from maze_dataset import MazeDataset, MazeDatasetConfig
        from maze_dataset.maze.lattice_maze import SolvedMaze

        n = 2
        base = np.zeros((2, n, n), dtype=np.bool_)
        base[0, 0, 0] = base[1, 0, 0] = base[1, 1, 0] = True
        sols = [[(0, 0), (1, 0)], [(0, 1), (0, 0), (1, 0), (1, 1)]]
        mz1 = [SolvedMaze(connection_list=base.copy(), solution=np.array(s)) for s in sols]
        cl2 = SArr(base.copy().astype(object), "b")
        bit = fresh_bool("flip")  # one symbolic connection bit in the second dataset's second maze
        cl2.o[0, 0, 1] = bit
        mz2 = [SolvedMaze(connection_list=base.copy(), solution=np.array(sols[0])), SolvedMaze(connection_list=cl2, solution=np.array(sols[1]))]
        g2 = fresh_int("grid_n2", 2, 3)
        c1 = MazeDatasetConfig(name="d", grid_n=2, n_mazes=2)
        c2 = MazeDatasetConfig(name="d", grid_n=int(g2), n_mazes=job["n_mazes2"])
        d1, d2 = MazeDataset(c1, mz1), MazeDataset(c2, mz2[: job["len2"]])
        try:
            eq = d1 == d2
        except Inconclusive:
            raise
        except Exception as e:
            return [(f"dataset == never raises (got {type(e).__name__})", z3.BoolVal(False))]
        exp = z3.And(ctx.inputs["grid_n2"] == 2, z3.BoolVal(job["len2"] == 2), z3.Not(ctx.inputs["flip"]))
        return [("datasets equal exactly when configurations and maze lists are equal", zb(eq) == exp)]

    return run


def _replay_dataset_eq(job, inputs, notes):
    from maze_dataset import MazeDataset, MazeDatasetConfig
    from maze_dataset.maze.lattice_maze import SolvedMaze

    base = np.zeros((2, 2, 2), dtype=np.bool_)
    base[0, 0, 0] = base[1, 0, 0] = base[1, 1, 0] = True
    sols = [[(0, 0), (1, 0)], [(0, 1), (0, 0), (1, 0), (1, 1)]]
    mz1 = [SolvedMaze(connection_list=base.copy(), solution=np.array(s)) for s in sols]
    cl2 = base.copy()
    cl2[0, 0, 1] = bool(inputs.get("flip", False))
    mz2 = [SolvedMaze(connection_list=base.copy(), solution=np.array(sols[0])), SolvedMaze(connection_list=cl2, solution=np.array(sols[1]))]
    d1 = MazeDataset(MazeDatasetConfig(name="d", grid_n=2, n_mazes=2), mz1)
    d2 = MazeDataset(MazeDatasetConfig(name="d", grid_n=inputs.get("grid_n2", 2), n_mazes=job["n_mazes2"]), mz2[: job["len2"]])
    try:
        eq = d1 == d2
    except Inconclusive:
        raise
    except Exception as e:
        return f"dataset-eq-raises | {type(e).__name__}: {str(e)[:100]}"
    exp = inputs.get("grid_n2", 2) == 2 and job["len2"] == 2 and not inputs.get("flip", False)
    if bool(eq) != exp:
        return f"dataset-eq-wrong | == gives {eq}, expected {exp} (grid_n2={inputs.get('grid_n2')}, len2={job['len2']}, flip={inputs.get('flip')})"
    return None


# ------------------------------------------------------------------------------------------ jobs
def jobs(tier, seed):
    q = tier == "quick"
    out = []
    shapes = [(1, 1), (2, 2), (2, 3), (3, 2), (1, 4), (2, 4), (5, 3)] if q else [(1, 1), (1, 2), (2, 1), (2, 2), (2, 3), (3, 2), (1, 4), (4, 1), (2, 4), (4, 2), (5, 3), (3, 7), (8, 8)]
    for r, c in shapes:
        out.append(dict(h="bounds", kind="TargetedLatticeMaze", r=r, c=c))
        for L in (1, 2, 3):
            out.append(dict(h="bounds", kind="SolvedMaze", r=r, c=c, L=L))
    eq_shapes = [((2, 2), (2, 2))] + ([((2, 2), (1, 4)), ((2, 2), (4, 1)), ((1, 2), (2, 1)), ((2, 3), (3, 2))] if q else
                                       [((2, 3), (2, 3)), ((2, 2), (1, 4)), ((2, 2), (4, 1)), ((1, 2), (2, 1)), ((2, 3), (3, 2)), ((1, 4), (4, 1)), ((1, 1), (1, 1))])
    for (s1, s2) in eq_shapes:
        for k1, k2 in itertools.product(KINDS, KINDS):
            if s1 != s2 and k1 != k2:
                continue
            Ls = [(2, 2)] if k1 != "SolvedMaze" or k2 != "SolvedMaze" else ([(1, 1), (2, 2), (2, 3)] if q else [(1, 1), (1, 2), (2, 2), (2, 3), (3, 3)])
            for L1, L2 in Ls:
                if s1 != s2 and (L1, L2) != (2, 2):
                    continue
                out.append(dict(h="eq", k1=k1, k2=k2, shape1=list(s1), shape2=list(s2), L1=L1, L2=L2, max_seconds=3300))
    out.append(dict(h="eq", k1="SolvedMaze", k2="SolvedMaze", shape1=[2, 2], shape2=[2, 2], L1=2, L2=2, meta_differs=True))
    out.append(dict(h="eq", k1="LatticeMaze", k2="LatticeMaze", shape1=[2, 2], shape2=[2, 2], meta_differs=True))
    for kind in KINDS:
        for shape in ([(2, 2)] if q else [(2, 2), (1, 3), (2, 3)]):
            out.append(dict(h="hash", kind=kind, shape=list(shape), L=2, max_seconds=3300))
        if kind == "SolvedMaze":
            out.append(dict(h="hash", kind=kind, shape=[1, 2], L=1))
            out.append(dict(h="hash", kind=kind, shape=[1, 2], L=3))
    for len2, nm2 in [(2, 2), (2, 5), (1, 2)]:
        out.append(dict(h="dataset_eq", len2=len2, n_mazes2=nm2))
    out.append(dict(_alias.ALIAS_JOB))  # results must not alias library state, arguments or each other (props/alias_common.py)
    out[0]["twin"] = True
    return out


_PATCH = dict(np_modules=["maze_dataset.maze.lattice_maze"], stub_ascii=True)
HARNESSES = {
    "bounds": dict(run=_run_bounds, replay=_replay_bounds, patch=_PATCH),
    "eq": dict(run=_run_eq, replay=_replay_eq, patch=_PATCH),
    "hash": dict(run=_run_hash, replay=_replay_hash, patch=_PATCH),
    "dataset_eq": dict(run=_run_dataset_eq, replay=_replay_dataset_eq, patch=_PATCH),
}
HARNESSES["alias"] = _alias.alias_harness("C09")

META = dict(
    functions=["LatticeMaze.__eq__/__ne__/__hash__ (as installed on the three classes)", "TargetedLatticeMaze.__post_init__", "TargetedLatticeMaze.__hash__",
               "SolvedMaze.__init__", "SolvedMaze.__hash__", "MazeDataset.__eq__"],
    bounds=dict(
        quick="constructor: endpoint coordinates over ALL integers (unbounded), 7 grid shapes incl. oblong, solutions of 1..3 cells; equality: all 9 kind "
              "pairs with every connection bit, endpoint and solution cell symbolic on 2x2, same-kind pairs across shapes with equal cell count "
              "(2x2/1x4/4x1, 1x2/2x1, 2x3/3x2), solution lengths (1,1),(2,2),(2,3), differing generation_meta; hash: 2x2 all kinds",
        thorough="13 shapes up to 8x8 for the constructor, more shape pairs and solution lengths for equality, hash on 1x3 and 2x3",
    ),
    degenerate=dict(hash="hash() needs concrete bytes: all symbolic fields are forked to concrete values (exhaustive enumeration at 2x2)",
                    eq="`all(np.array_equal(...))` forks once per compared field; each path still covers all values of the remaining fields"),
    stubs=stubs_description(np_modules=["maze_dataset.maze.lattice_maze"]),
    outside=["grids larger than the bound", "connection arrays of non-boolean dtype", "SolvedMaze(allow_invalid=True)", "hash distinctness (not claimed by the property)"],
    assumptions=["mazes built directly through the constructors"],
)

META.setdefault("degenerate", {})["alias"] = _alias.ALIAS_META
