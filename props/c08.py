"""C08 - dataset filters select exactly what they document and never disturb their input.

Filter *parameters* are symbolic integers; the datasets are concrete (built at check time from the
current code).  Each path fixes an interval of parameter values and the oracle
`kept_i <=> rule_i(parameter)` is proved for the whole interval.
"""

from __future__ import annotations

import copy
import json

import numpy as np
import z3

from symx.core import Inconclusive, SBool, SInt, cur, fresh_int, is_sym, zb, zi
from symx.harness import stubs_description

ID = "C08"


# ------------------------------------------------------------------------------------ datasets
def _tag(ds):
    for i, m in enumerate(ds.mazes):
        meta = dict(m.generation_meta or {})
        meta["idx"] = i
        m.__dict__["generation_meta"] = meta
    return ds


def _generated(gen, n, n_mazes, seed, **kw):
    from maze_dataset import MazeDataset, MazeDatasetConfig
    from maze_dataset.generation.generators import GENERATORS_MAP

    cfg = MazeDatasetConfig(name=f"c08-{gen}", grid_n=n, n_mazes=n_mazes, seed=seed, maze_ctor=GENERATORS_MAP[gen], maze_ctor_kwargs=kw)
    return _tag(MazeDataset.generate(cfg, gen_parallel=False))


def _handbuilt(which):
    """datasets with exact and near duplicates at first / middle / last positions, all-equal lengths, length-1 solutions"""
    from maze_dataset import MazeDataset, MazeDatasetConfig
    from maze_dataset.maze.lattice_maze import SolvedMaze

    def mz(bits, sol):
        cl = np.zeros((2, 3, 3), dtype=bool)
        for k in bits:
            cl[k] = True
        return SolvedMaze(connection_list=cl, solution=np.array(sol), generation_meta=dict(func_name="hand"))

    A = [(0, 0, 0), (0, 1, 0), (1, 0, 0), (1, 0, 1), (1, 2, 0)]
    B = A + [(0, 0, 1)]            # one extra connection (near duplicate of A)
    C2 = A + [(0, 0, 1), (1, 1, 1)]  # two extra connections
    s1 = [(0, 0), (1, 0), (2, 0)]
    s2 = [(0, 0), (0, 1), (0, 2)]
    s3 = [(0, 0), (1, 0), (2, 0), (2, 1)]
    if which == "dups":
        mazes = [mz(A, s1), mz(B, s2), mz(A, s1), mz(C2, s3), mz(A, s2), mz(B, s2), mz(A, s1)]
    elif which == "chain":  # non-transitive near-duplicate chain A ~ B ~ C, A !~ C
        mazes = [mz(A, s1), mz(A, s3), mz(B, s2), mz(C2, s1 + [(2, 1), (2, 2)]), mz(C2, [(1, 1)])]
    elif which == "equal_lengths":
        mazes = [mz(A, s1), mz(B, s2), mz(C2, s1), mz(A, s2)]
    elif which == "short":
        mazes = [mz(A, [(0, 0)]), mz(B, [(0, 0), (1, 0)]), mz(A, [(2, 0)]), mz(C2, [(0, 1), (0, 2)])]
    else:
        raise KeyError(which)
    return _tag(MazeDataset(MazeDatasetConfig(name=f"c08-{which}", grid_n=3, n_mazes=len(mazes)), mazes))


_DS_CACHE: dict = {}


def dataset(name):
    if name not in _DS_CACHE:
        if name == "dfs4":
            _DS_CACHE[name] = _generated("gen_dfs", 4, 7, 3)
        elif name == "perc3":
            _DS_CACHE[name] = _generated("gen_dfs_percolation", 3, 8, 5, p=0.3)
        elif name == "dfs2":
            _DS_CACHE[name] = _generated("gen_dfs", 2, 6, 7)
        else:
            _DS_CACHE[name] = _handbuilt(name)
    # always hand out a private deep copy built without the library's own copy machinery
    src = _DS_CACHE[name]
    from maze_dataset import MazeDataset, MazeDatasetConfig
    from maze_dataset.maze.lattice_maze import SolvedMaze

    mazes = [SolvedMaze(connection_list=m.connection_list.copy(), solution=m.solution.copy(), generation_meta=copy.deepcopy(m.generation_meta)) for m in src.mazes]
    return MazeDataset(MazeDatasetConfig.load(src.cfg.serialize()), mazes)


DATASETS = ["dfs4", "perc3", "dfs2", "dups", "chain", "equal_lengths", "short"]


def warmup():
    for n in DATASETS:
        dataset(n)


def _snapshot(ds):
    return dict(n=len(ds.mazes), ids=[id(m) for m in ds.mazes],
                mazes=[(m.connection_list.tobytes(), m.connection_list.shape, np.asarray(m.solution).astype(np.int64).tobytes(),
                        json.dumps(_meta_js(m.generation_meta), sort_keys=True)) for m in ds.mazes],
                cfg=json.dumps(_js(ds.cfg.serialize()), sort_keys=True, default=str), collected=ds.generation_metadata_collected is None)


def _meta_js(meta):
    if meta is None:
        return None
    out = {}
    for k, v in meta.items():
        if isinstance(v, set):
            out[k] = sorted([list(map(int, x)) for x in v])
        elif isinstance(v, np.ndarray):
            out[k] = v.tolist()
        elif isinstance(v, (np.generic,)):
            out[k] = v.item()
        else:
            out[k] = v
    return out


def _js(o):
    if isinstance(o, dict):
        return {str(k): _js(v) for k, v in o.items() if k not in ("__doc__", "source_code")}
    if isinstance(o, (list, tuple)):
        return [_js(v) for v in o]
    if is_sym(o):
        return f"<sym {o!r}>"
    if isinstance(o, np.generic):
        return o.item()
    if isinstance(o, np.ndarray):
        return o.tolist()
    return o


def _unchanged(before, ds, allow_meta_collection=False):
    after = _snapshot(ds)
    if allow_meta_collection:
        return before["n"] == after["n"] and before["ids"] == after["ids"] and [m[:3] for m in before["mazes"]] == [m[:3] for m in after["mazes"]]
    return before == after


# ------------------------------------------------------------------------------------ rules
def _lengths(ds):
    return [int(np.asarray(m.solution).shape[0]) for m in ds.mazes]


def _manhattan(m):
    return int(abs(int(m.start_pos[0]) - int(m.end_pos[0])) + abs(int(m.start_pos[1]) - int(m.end_pos[1])))


def _dup_rule(ds, t_cl, t_sol):
    """z3 predicate per maze: kept iff no LATER maze is within the thresholds (None disables a criterion)"""
    preds = []
    for i, a in enumerate(ds.mazes):
        hits = []
        for b in ds.mazes[i + 1:]:
            if t_cl is not None and a.connection_list.shape == b.connection_list.shape:
                hits.append(int(np.sum(a.connection_list != b.connection_list)) <= t_cl)
            if t_sol is not None and np.asarray(a.solution).shape == np.asarray(b.solution).shape:
                hits.append(int(np.sum(np.asarray(a.solution) != np.asarray(b.solution))) <= t_sol)
        hs = [zb(h) if is_sym(h) else z3.BoolVal(bool(h)) for h in hits]
        preds.append(z3.Not(z3.Or(*hs)) if hs else z3.BoolVal(True))
    return preds


def _percentile(vals, p):
    """linear-interpolation percentile (the documented numpy default), computed independently"""
    s = sorted(vals)
    if len(s) == 1:
        return float(s[0])
    pos = (len(s) - 1) * p / 100.0
    lo = int(np.floor(pos))
    hi = min(lo + 1, len(s) - 1)
    return s[lo] + (s[hi] - s[lo]) * (pos - lo)


def _result_obligations(ds, before, res, preds, name, args, kwargs, n_prev_filters=0):
    kept = [m.generation_meta["idx"] for m in res.mazes] if all(m.generation_meta and "idx" in m.generation_meta for m in res.mazes) else None
    obs = [("result is a new dataset object with new maze objects", z3.BoolVal(res is not ds and not (set(map(id, res.mazes)) & set(before["ids"]))))]
    if kept is None:
        obs.append(("result mazes carry their provenance tag", z3.BoolVal(False)))
        return obs
    obs.append(("kept mazes are in their original order, none twice", z3.BoolVal(kept == sorted(set(kept)))))
    obs.append((f"{name}: a maze is kept exactly when it satisfies the documented rule",
                z3.And(*[z3.BoolVal(i in kept) == p for i, p in enumerate(preds)])))
    same = all(np.array_equal(m.connection_list, ds.mazes[i].connection_list) and np.array_equal(m.solution, ds.mazes[i].solution)
               for m, i in zip(res.mazes, kept))
    obs.append(("kept mazes are unchanged copies", z3.BoolVal(bool(same))))
    obs.append(("input dataset (mazes, length, configuration) left unchanged", z3.BoolVal(_unchanged(before, ds))))
    obs.append(("result configuration reports the new maze count", z3.BoolVal(res.cfg.n_mazes == len(res.mazes) == len(kept))))
    af = res.cfg.applied_filters
    ok = len(af) == n_prev_filters + 1 and af[-1]["name"] == name and _same_args(af[-1].get("args", ()), args) and _same_kwargs(af[-1].get("kwargs", {}), kwargs)
    obs.append(("result configuration records the filter name and arguments last", z3.BoolVal(bool(ok))))
    return obs


def _same_args(a, b):
    return len(a) == len(b) and all(x is y or (not is_sym(x) and not is_sym(y) and x == y) for x, y in zip(a, b))


def _same_kwargs(a, b):
    return set(a) == set(b) and all(a[k] is b[k] or (not is_sym(a[k]) and not is_sym(b[k]) and a[k] == b[k]) for k in a)


# ------------------------------------------------------------------------------------ harnesses
def _param(ctx, name, lo, hi, none_ok=False):
    """symbolic int parameter (or None via a solver-free fork)"""
    if none_ok and ctx.choose(2) == 1:
        ctx.inputs[name + "_none"] = z3.BoolVal(True)
        return None, None
    if none_ok:
        ctx.inputs[name + "_none"] = z3.BoolVal(False)
    v = fresh_int(name, lo, hi)
    return v, ctx.inputs[name]


def _apply(ds, fname, args, kwargs):
    return getattr(ds.filter_by, fname)(*args, **kwargs)


def _run_filter(job):
    fname, dsname = job["filter"], job["ds"]

    def run(ctx, pinned=None):
        ds = dataset(dsname)
        before = _snapshot(ds)
        lens = _lengths(ds)
        as_kw = job.get("kw", True)
        if fname == "path_length":
            v, var = _param(ctx, "min_length", -1, max(lens) + 2)
            preds = [z3.IntVal(L) >= var for L in lens]
            args, kwargs = ((), dict(min_length=v)) if as_kw else ((v,), {})
        elif fname == "start_end_distance":
            v, var = _param(ctx, "min_distance", -1, 2 * ds.cfg.grid_n + 1)
            preds = [z3.IntVal(_manhattan(m)) >= var for m in ds.mazes]
            args, kwargs = ((), dict(min_distance=v)) if as_kw else ((v,), {})
        elif fname == "truncate_count":
            v, var = _param(ctx, "max_count", 0, len(lens) + 2)
            preds = [z3.IntVal(i) < var for i in range(len(lens))]
            args, kwargs = ((), dict(max_count=v)) if as_kw else ((v,), {})
        elif fname == "remove_duplicates":
            t1, _ = _param(ctx, "t_cl", -1, 2 * ds.cfg.grid_n ** 2, none_ok=True)
            t2, _ = _param(ctx, "t_sol", -1, 12, none_ok=True)
            preds = _dup_rule(ds, t1, t2)
            args, kwargs = (), dict(minimum_difference_connection_list=t1, minimum_difference_solution=t2)
        elif fname == "remove_duplicates_default":
            preds = _dup_rule(ds, 1, 1)
            args, kwargs = (), {}
        elif fname == "remove_duplicates_fast":
            seen, keep = [], []
            for m in ds.mazes:
                dup = any(np.array_equal(m.connection_list, s.connection_list) and np.array_equal(m.solution, s.solution) for s in seen)
                keep.append(not dup)
                if not dup:
                    seen.append(m)
            preds = [z3.BoolVal(k) for k in keep]
            args, kwargs = (), {}
        elif fname == "cut_percentile_shortest":
            p = job["p"]
            cutoff = int(_percentile(lens, p))
            preds = [z3.BoolVal(L > cutoff) for L in lens]
            args, kwargs = ((), dict(percentile=p)) if p != 10.0 or as_kw else ((), {})
        elif fname == "custom":
            thr = fresh_int("thr", 0, max(lens) + 1)

            def longer_than(m, thr):
                return len(m.solution) > thr

            res = ds.custom_maze_filter(longer_than, thr=thr)
            kept = [m.generation_meta["idx"] for m in res.mazes]
            return [("custom predicate: kept exactly the mazes satisfying it, in order",
                     z3.And(z3.BoolVal(kept == sorted(kept)), *[z3.BoolVal(i in kept) == (z3.IntVal(L) > ctx.inputs["thr"]) for i, L in enumerate(lens)])),
                    ("input left unchanged", z3.BoolVal(_unchanged(before, ds))),
                    ("custom filter recorded", z3.BoolVal(res.cfg.applied_filters[-1]["name"] == "__custom__:longer_than" and res.cfg.n_mazes == len(res.mazes))),
                    ("result is a new dataset", z3.BoolVal(res is not ds and res.cfg is not ds.cfg))]
        else:
            raise AssertionError(fname)
        real = "remove_duplicates" if fname == "remove_duplicates_default" else fname
        res = _apply(ds, real, args, kwargs)
        obs = _result_obligations(ds, before, res, preds, real, args, kwargs)
        # no hidden state: the same filter applied to the same (unchanged) input once more selects the same mazes
        res_again = _apply(ds, real, args, kwargs)
        obs += [(n + " (second application to the same input)", o) for n, o in _result_obligations(ds, before, res_again, preds, real, args, kwargs)[:3]]
        # a later in-place metadata collection on the RESULT must not reach back into the input
        if job.get("then_collect") and len(res.mazes) > 0:
            res2 = res.filter_by.collect_generation_meta()
            obs.append(("collecting metadata on the result leaves the input's mazes and metadata untouched", z3.BoolVal(_unchanged(before, ds))))
        return obs

    return run


def _concrete_args(job, inputs):
    f = job["filter"]
    as_kw = job.get("kw", True)

    def val(n):
        return None if inputs.get(n + "_none") else inputs.get(n)

    if f == "path_length":
        return ((), dict(min_length=val("min_length"))) if as_kw else ((val("min_length"),), {})
    if f == "start_end_distance":
        return ((), dict(min_distance=val("min_distance"))) if as_kw else ((val("min_distance"),), {})
    if f == "truncate_count":
        return ((), dict(max_count=val("max_count"))) if as_kw else ((val("max_count"),), {})
    if f == "remove_duplicates":
        return (), dict(minimum_difference_connection_list=val("t_cl"), minimum_difference_solution=val("t_sol"))
    if f == "cut_percentile_shortest":
        return (), dict(percentile=job["p"])
    return (), {}


def _expected_kept(job, ds, args, kwargs):
    f = job["filter"]
    lens = _lengths(ds)
    if f == "path_length":
        v = (args or [kwargs.get("min_length")])[0] if args else kwargs["min_length"]
        return [i for i, L in enumerate(lens) if L >= v]
    if f == "start_end_distance":
        v = args[0] if args else kwargs["min_distance"]
        return [i for i, m in enumerate(ds.mazes) if _manhattan(m) >= v]
    if f == "truncate_count":
        v = args[0] if args else kwargs["max_count"]
        return list(range(len(lens)))[:v]
    if f in ("remove_duplicates", "remove_duplicates_default"):
        t1 = kwargs.get("minimum_difference_connection_list", 1)
        t2 = kwargs.get("minimum_difference_solution", 1)
        out = []
        for i, a in enumerate(ds.mazes):
            uniq = True
            for b in ds.mazes[i + 1:]:
                if t1 is not None and a.connection_list.shape == b.connection_list.shape and int(np.sum(a.connection_list != b.connection_list)) <= t1:
                    uniq = False
                if t2 is not None and a.solution.shape == b.solution.shape and int(np.sum(a.solution != b.solution)) <= t2:
                    uniq = False
            if uniq:
                out.append(i)
        return out
    if f == "remove_duplicates_fast":
        seen, out = [], []
        for i, m in enumerate(ds.mazes):
            if not any(np.array_equal(m.connection_list, s.connection_list) and np.array_equal(m.solution, s.solution) for s in seen):
                seen.append(m)
                out.append(i)
        return out
    if f == "cut_percentile_shortest":
        cutoff = int(_percentile(lens, job["p"]))
        return [i for i, L in enumerate(lens) if L > cutoff]
    raise AssertionError(f)


def _replay_filter(job, inputs, notes):
    f = job["filter"]
    ds = dataset(job["ds"])
    before = _snapshot(ds)
    if f == "custom":
        thr = inputs.get("thr", 0)

        def longer_than(m, thr):
            return len(m.solution) > thr

        res = ds.custom_maze_filter(longer_than, thr=thr)
        kept = [m.generation_meta["idx"] for m in res.mazes]
        exp = [i for i, L in enumerate(_lengths(ds)) if L > thr]
        if kept != exp or not _unchanged(before, ds) or res.cfg.n_mazes != len(kept) or res.cfg is ds.cfg:
            return f"filter-custom | thr={thr} on {job['ds']}: kept {kept} expected {exp}, input unchanged={_unchanged(before, ds)}"
        return None
    args, kwargs = _concrete_args(job, inputs)
    real = "remove_duplicates" if f == "remove_duplicates_default" else f
    try:
        res = _apply(ds, real, args, kwargs)
    except Exception as e:
        return f"filter-raises:{real} | {real}{args}{kwargs} on {job['ds']}: {type(e).__name__}: {str(e)[:100]}"
    kept = [m.generation_meta.get("idx") if m.generation_meta else None for m in res.mazes]
    exp = _expected_kept(job, ds, args, kwargs)
    tag = f"{real}(args={args}, kwargs={kwargs}) on dataset {job['ds']} (solution lengths {_lengths(ds)})"
    if kept != exp:
        return f"filter-selection:{real} | {tag}: kept mazes {kept}, the documented rule keeps {exp}"
    if not _unchanged(before, ds):
        return f"filter-disturbs-input:{real} | {tag}: the input dataset changed"
    if res is ds or set(map(id, res.mazes)) & set(before["ids"]):
        return f"filter-aliases-input:{real} | {tag}: result shares objects with the input"
    af = res.cfg.applied_filters
    if res.cfg.n_mazes != len(kept) or not af or af[-1]["name"] != real or tuple(af[-1].get("args", ())) != tuple(args) or dict(af[-1].get("kwargs", {})) != dict(kwargs):
        return f"filter-provenance:{real} | {tag}: n_mazes={res.cfg.n_mazes} applied_filters={af}"
    if job.get("then_collect") and len(res.mazes) > 0:
        res.filter_by.collect_generation_meta()
        if not _unchanged(before, ds):
            return f"filter-aliases-input:{real} | {tag}: collecting metadata on the result modified the input dataset"
    return None


# --------------------------------------------------------------------------- sequences / from_config
def _run_sequence(job):
    """filters listed in a configuration are applied by the config-driven entry point like by hand, in order"""
    def run(ctx, pinned=None):
        from maze_dataset import MazeDataset, MazeDatasetConfig
        from maze_dataset.generation.generators import GENERATORS_MAP

        # from_config renders the configuration to JSON text (file name / hash), which needs concrete values:
        # the two parameters are forked over their whole range (degenerate)
        ml = ctx.choose(10)
        mc = ctx.choose(8)
        ctx.inputs["min_length"], ctx.inputs["max_count"] = z3.IntVal(ml), z3.IntVal(mc)
        base = dict(name="c08-seq", grid_n=3, n_mazes=6, seed=11, maze_ctor=GENERATORS_MAP["gen_dfs"])
        seq = {"pl_tc": [("path_length", dict(min_length=ml)), ("truncate_count", dict(max_count=mc))],
               "tc_pl": [("truncate_count", dict(max_count=mc)), ("path_length", dict(min_length=ml))],
               "pl_dup_tc": [("path_length", dict(min_length=ml)), ("remove_duplicates_fast", {}), ("truncate_count", dict(max_count=mc))],
               # the same filter twice in a row with identical arguments: both applications are part of the history and must both be recorded
               "tc_tc": [("truncate_count", dict(max_count=mc)), ("truncate_count", dict(max_count=mc))],
               "pl_pl_tc": [("path_length", dict(min_length=ml)), ("path_length", dict(min_length=ml)), ("truncate_count", dict(max_count=mc))]}[job["seq"]]
        cfg_f = MazeDatasetConfig(**base, applied_filters=[dict(name=n, args=(), kwargs=dict(k)) for n, k in seq])
        cfg_before = json.dumps(_js(cfg_f.serialize()), sort_keys=True, default=str)
        try:
            via_cfg = MazeDataset.from_config(cfg_f, load_local=False, save_local=False, do_download=False)
        except Exception as e:
            return [(f"the config-driven entry point applies the configured filter list (raised {type(e).__name__})", z3.BoolVal(False))]
        by_hand = MazeDataset.generate(MazeDatasetConfig(**base), gen_parallel=False)
        lens0 = _lengths(by_hand)
        raw = [(m.connection_list.copy(), np.asarray(m.solution).copy()) for m in by_hand.mazes]
        for n, k in seq:
            by_hand = getattr(by_hand.filter_by, n)(**k)
        same = len(via_cfg) == len(by_hand) and all(np.array_equal(a.connection_list, b.connection_list) and np.array_equal(a.solution, b.solution)
                                                     for a, b in zip(via_cfg.mazes, by_hand.mazes))
        obs = [("config-driven result equals applying the filters by hand in order", z3.BoolVal(bool(same))),
               ("configuration object passed in is not modified", z3.BoolVal(json.dumps(_js(cfg_f.serialize()), sort_keys=True, default=str) == cfg_before)),
               ("recorded filters are the configured ones in order", z3.BoolVal([f["name"] for f in via_cfg.cfg.applied_filters] == [n for n, _ in seq])),
               ("maze count updated", z3.BoolVal(via_cfg.cfg.n_mazes == len(via_cfg.mazes)))]
        # independent oracle for the whole sequence over the symbolic parameters
        mlv, mcv = ctx.inputs["min_length"], ctx.inputs["max_count"]
        idx = list(range(len(lens0)))
        exp_terms = _seq_oracle(job["seq"], lens0, raw, mlv, mcv)
        got = []
        for m in via_cfg.mazes:
            got.append(next(i for i, (c_, s_) in enumerate(raw) if np.array_equal(c_, m.connection_list) and np.array_equal(s_, m.solution)))
        obs.append(("sequence result is what the documented rules give for every parameter value on this path",
                    z3.And(*[z3.BoolVal(i in got) == exp_terms[i] for i in idx])))
        return obs

    return run


def _seq_oracle(seq, lens, raw, ml, mc):
    """z3 term per original index: is it in the final result"""
    n = len(lens)
    alive = [z3.BoolVal(True)] * n

    def rank(alive, i):  # number of alive mazes before i
        return z3.Sum([z3.If(alive[j], 1, 0) for j in range(i)]) if i else z3.IntVal(0)

    steps = {"pl_tc": ["pl", "tc"], "tc_pl": ["tc", "pl"], "pl_dup_tc": ["pl", "dup", "tc"], "tc_tc": ["tc", "tc"], "pl_pl_tc": ["pl", "pl", "tc"]}[seq]
    for st in steps:
        if st == "pl":
            alive = [z3.And(a, z3.IntVal(lens[i]) >= ml) for i, a in enumerate(alive)]
        elif st == "tc":
            alive = [z3.And(a, rank(alive, i) < mc) for i, a in enumerate(alive)]
        else:
            new = []
            for i, a in enumerate(alive):
                earlier = [alive[j] for j in range(i) if np.array_equal(raw[j][0], raw[i][0]) and np.array_equal(raw[j][1], raw[i][1])]
                new.append(z3.And(a, z3.Not(z3.Or(*earlier))) if earlier else a)
            alive = new
    return alive


def _replay_sequence(job, inputs, notes):
    from maze_dataset import MazeDataset, MazeDatasetConfig
    from maze_dataset.generation.generators import GENERATORS_MAP

    ml, mc = inputs.get("min_length", 0), inputs.get("max_count", 0)
    base = dict(name="c08-seq", grid_n=3, n_mazes=6, seed=11, maze_ctor=GENERATORS_MAP["gen_dfs"])
    seq = {"pl_tc": [("path_length", dict(min_length=ml)), ("truncate_count", dict(max_count=mc))],
           "tc_pl": [("truncate_count", dict(max_count=mc)), ("path_length", dict(min_length=ml))],
           "pl_dup_tc": [("path_length", dict(min_length=ml)), ("remove_duplicates_fast", {}), ("truncate_count", dict(max_count=mc))],
           # the same filter twice in a row with identical arguments: both applications are part of the history and must both be recorded
           "tc_tc": [("truncate_count", dict(max_count=mc)), ("truncate_count", dict(max_count=mc))],
           "pl_pl_tc": [("path_length", dict(min_length=ml)), ("path_length", dict(min_length=ml)), ("truncate_count", dict(max_count=mc))]}[job["seq"]]
    cfg_f = MazeDatasetConfig(**base, applied_filters=[dict(name=n, args=(), kwargs=dict(k)) for n, k in seq])
    before = json.dumps(_js(cfg_f.serialize()), sort_keys=True, default=str)
    try:
        via_cfg = MazeDataset.from_config(cfg_f, load_local=False, save_local=False, do_download=False)
    except Exception as e:
        return f"filter-from-config | sequence {[(n, k) for n, k in seq]}: from_config raised {type(e).__name__}: {str(e)[:120]}"
    gen = MazeDataset.generate(MazeDatasetConfig(**base), gen_parallel=False)
    lens = _lengths(gen)
    idx = list(range(len(lens)))
    for n, k in seq:  # independent application of the documented rules
        if n == "path_length":
            idx = [i for i in idx if lens[i] >= ml]
        elif n == "truncate_count":
            idx = idx[:mc]
        else:
            out = []
            for i in idx:
                if not any(np.array_equal(gen.mazes[i].connection_list, gen.mazes[j].connection_list) and np.array_equal(gen.mazes[i].solution, gen.mazes[j].solution) for j in out):
                    out.append(i)
            idx = out
    ok = len(via_cfg) == len(idx) and all(np.array_equal(m.connection_list, gen.mazes[i].connection_list) and np.array_equal(m.solution, gen.mazes[i].solution)
                                           for m, i in zip(via_cfg.mazes, idx))
    if not ok:
        return f"filter-from-config | sequence {[(n, k) for n, k in seq]}: from_config gives {len(via_cfg)} mazes, the rules applied in order keep {idx}"
    if json.dumps(_js(cfg_f.serialize()), sort_keys=True, default=str) != before:
        return "filter-from-config-modifies-cfg | the configuration passed to from_config was modified"
    if [f["name"] for f in via_cfg.cfg.applied_filters] != [n for n, _ in seq] or via_cfg.cfg.n_mazes != len(via_cfg.mazes):
        return f"filter-from-config-provenance | applied_filters={via_cfg.cfg.applied_filters} n_mazes={via_cfg.cfg.n_mazes}"
    return None


# --------------------------------------------------------------------------------- metadata
def _run_meta(job):
    def run(ctx, pinned=None):
        from collections import Counter

        ds = dataset(job["ds"])
        before = _snapshot(ds)
        inplace = job["inplace"]
        exp = {}
        for m in ds.mazes:
            for k, v in m.generation_meta.items():
                c = exp.setdefault(k, Counter())
                if isinstance(v, (bool, int, float, str)):
                    c[v] += 1
                elif isinstance(v, set):
                    c.update(v)
                elif isinstance(v, (list, np.ndarray)):
                    a = np.array(v)
                    if a.ndim == 1:
                        c[tuple(a)] += 1
                    else:
                        c.update(tuple(x) for x in a)
        clear = job.get("clear", True)
        res = ds.filter_by.collect_generation_meta(inplace=inplace, clear_in_mazes=clear)
        got = res.generation_metadata_collected
        ok = got is not None and set(got) == set(exp) and all({_k(a): b for a, b in got[k].items()} == {_k(a): b for a, b in exp[k].items()} for k in exp)
        obs = [("collected metadata has exact value counts over all mazes", z3.BoolVal(bool(ok))),
               ("same mazes in the same order", z3.BoolVal(len(res) == before["n"] and all(np.array_equal(a.connection_list, b.connection_list) and np.array_equal(a.solution, b.solution)
                                                                                          for a, b in zip(res.mazes, ds.mazes))))]
        if inplace:
            obs.append(("documented in-place collection: same object, maze structure untouched", z3.BoolVal(res is ds and _unchanged(before, ds, allow_meta_collection=True))))
        else:
            obs.append(("inplace=False leaves the input (incl. its per-maze metadata) unchanged", z3.BoolVal(res is not ds and _unchanged(before, ds))))
        stripped = dataset(job["ds"])
        b2 = _snapshot(stripped)
        s2 = stripped.filter_by.strip_generation_meta()
        obs.append(("strip_generation_meta: same mazes without metadata, input unchanged",
                    z3.BoolVal(all(m.generation_meta is None for m in s2.mazes) and len(s2) == b2["n"] and _unchanged(b2, stripped)
                               and all(np.array_equal(a.connection_list, b.connection_list) and np.array_equal(a.solution, b.solution) for a, b in zip(s2.mazes, stripped.mazes)))))
        return obs

    return run


def _k(x):
    if isinstance(x, tuple):
        return tuple(int(v) for v in x)
    if isinstance(x, np.generic):
        return x.item()
    return x


def _replay_meta(job, inputs, notes):
    from symx.core import Ctx, explore

    r = explore(lambda ctx: _run_meta(job)(ctx), label="replay")
    if r.cex:
        return f"filter-metadata | {r.cex[0]['obligation']} (dataset {job['ds']}, inplace={job['inplace']}, clear_in_mazes={job.get('clear', True)})"
    return None


# ------------------------------------------------------------------------------------------ jobs
def jobs(tier, seed):
    q = tier == "quick"
    out = []
    dss = ["dfs4", "perc3", "dups", "equal_lengths", "short"] if q else DATASETS
    for ds in dss:
        for f in ("path_length", "start_end_distance", "truncate_count"):
            out.append(dict(h="filter", filter=f, ds=ds, kw=True, then_collect=(f == "path_length")))
            out.append(dict(h="filter", filter=f, ds=ds, kw=False, then_collect=(f == "start_end_distance")))
        out.append(dict(h="filter", filter="remove_duplicates_default", ds=ds))
        out.append(dict(h="filter", filter="remove_duplicates_fast", ds=ds))
        out.append(dict(h="filter", filter="custom", ds=ds))
        for p in ([0.0, 10.0, 50.0, 100.0] if q else [float(x) for x in range(0, 101, 5)] + [1.0, 12.5, 33.3, 66.7, 99.0, 99.9]):
            out.append(dict(h="filter", filter="cut_percentile_shortest", ds=ds, p=p))
    for ds in (["dups", "chain", "short"] if q else ["dups", "chain", "short", "equal_lengths", "perc3", "dfs2"]):
        out.append(dict(h="filter", filter="remove_duplicates", ds=ds, max_seconds=3300))
    for s in (["pl_tc", "pl_dup_tc", "tc_tc"] if q else ["pl_tc", "tc_pl", "pl_dup_tc", "tc_tc", "pl_pl_tc"]):
        out.append(dict(h="sequence", seq=s, max_seconds=3300))
    for ds in (["dfs4", "perc3"] if q else ["dfs4", "perc3", "dfs2"]):
        for inplace in (True, False):
            out.append(dict(h="meta", ds=ds, inplace=inplace))
            out.append(dict(h="meta", ds=ds, inplace=inplace, clear=False))
    out[0]["twin"] = True
    return out


_P = dict(np_modules=[], stub_ascii=False)
HARNESSES = {"filter": dict(run=_run_filter, replay=_replay_filter, patch=_P), "sequence": dict(run=_run_sequence, replay=_replay_sequence, patch=_P),
             "meta": dict(run=_run_meta, replay=_replay_meta, patch=_P)}

META = dict(
    functions=["register_maze_filter / register_dataset_filter wrappers", "MazeDatasetFilters.path_length", "start_end_distance", "cut_percentile_shortest", "truncate_count",
               "remove_duplicates", "remove_duplicates_fast", "strip_generation_meta", "collect_generation_meta", "MazeDataset.custom_maze_filter",
               "GPTDataset._apply_filters_from_config", "_check_filter_equality", "MazeDataset.update_self_config", "MazeDataset.__deepcopy__", "GPTDataset.from_config (no cache)"],
    bounds=dict(
        quick="filter parameters symbolic integers (min_length, min_distance, max_count in [-1/0, max+2]; both duplicate thresholds symbolic or None) over 5 concrete "
              "datasets built at check time (gen_dfs 4x4 x7, gen_dfs_percolation 3x3 x8, hand-built 3x3 sets with exact/near duplicates at first/middle/last position, "
              "all-equal lengths, length-1 solutions); percentile in {0,10,50,100}; filter sequences of length 2 and 3 (incl. the same filter twice in a row with identical arguments) through from_config with two symbolic parameters",
        thorough="7 datasets, percentile in {0,5,...,100} and {1,12.5,33.3,66.7,99,99.9}, five sequences, duplicate thresholds on 6 datasets",
    ),
    degenerate=dict(sequence="parameters forked over their range (the config-driven entry point renders them to JSON text)", cut_percentile_shortest="percentile is a concrete grid (np.percentile is C code)", remove_duplicates_fast="no parameter", meta="no symbolic input"),
    stubs=["none: the filters run on real numpy; only the integer parameters are symbolic objects"],
    outside=["datasets other than the fixtures", "negative max_count", "filters added by users", "percentile values off the grid"],
    assumptions=["mazes are identified across copies by an index tag placed in generation_meta", "np.percentile uses linear interpolation (documented numpy default)"],
)
