"""C12 - generation metadata tells the truth about reachability (same executions as C01, other obligations)."""

from props import c01 as _c01
from props import gen_common as G

ID = "C12"


def jobs(tier, seed):
    return _c01.make_jobs(tier, seed, ("c12",))


from props import alias_common as _alias

HARNESSES = dict(_c01.HARNESSES)
HARNESSES["alias"] = _alias.alias_harness("C12")

META = dict(_c01.META)
META["functions"] = _c01.META["functions"] + ["LatticeMaze.get_connected_component", "LatticeMaze.generate_random_path", "LatticeMaze.find_shortest_path"]
META["assumptions"] = _c01.META["assumptions"] + ["'requested number of accessible cells' is int(accessible_cells * rows*cols) for float arguments, as documented"]

META["degenerate"] = dict(META.get("degenerate", {}), alias=_alias.ALIAS_META)
