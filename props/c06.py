"""C06 - modular tokenization is a faithful, decodable encoding of the maze.

The oracle is an independent reader of modular token streams, configured only from the tokenizer's parameters
(element classes and their boolean / literal fields) with the published token texts written out here: it splits
the stream into regions, parses the adjacency entries back into (leading cell, trailing cell, connection|wall),
and states what origin, target and path regions must contain for the maze at hand.

Harnesses
  isconn      is_connection on every lattice edge in both orientations, all bits symbolic, one path per grid
              (grids up to 50x50, int8 edge arrays exactly as the tokenizers build them)
  edge_label  _tokenize_edge_grouping of one lattice edge with every bit of the maze symbolic
  directions  get_cardinal_direction / get_relative_direction for symbolic cells anywhere in a 50x50 grid
  coords      coordinate tokenizers on a symbolic cell of a 50x50 grid (forks per cell)
  adj         adjacency-list element, all 216 configurations x coordinate tokenizers on enumerated small mazes
  path        path element, all 1008 configurations on enumerated small solved mazes; Forks around concrete
              solutions with the surrounding bits symbolic
  full        complete tokenizers (covering set) x three maze kinds, small and large grids
"""

from __future__ import annotations

import itertools
import json
from collections import Counter
from pathlib import Path

import numpy as np
import z3

from symx import concrete as C
from symx import core
from symx.core import Inconclusive, PathAbort, SBool, SInt, cur, fresh_bool, fresh_int, is_sym, zb, zi
from symx.harness import SNP
from symx.oracles import Lattice
from symx.snp import SArr
from props import tok_common as T
from props import c15 as K  # parameter-space derivation (skeletons, real_instances)

from props import alias_common as _alias

ID = "C06"
VERIF = Path(__file__).resolve().parent.parent

# published token texts (pinned; the vocabulary itself is pinned by C14's reference list)
ADJ_S, ADJ_E, ORG_S, ORG_E, TGT_S, TGT_E, PTH_S, PTH_E = ("<ADJLIST_START>", "<ADJLIST_END>", "<ORIGIN_START>", "<ORIGIN_END>",
                                                          "<TARGET_START>", "<TARGET_END>", "<PATH_START>", "<PATH_END>")
CONN, WALL, ENDLINE, ADJ_PRE = "<-->", "<XX>", ";", "ADJ_GROUP"
TGT_POST, PATH_PRE, PATH_INTRA, PATH_POST = "||", "STEP", ":", "THEN"
CARD = {(-1, 0): "NORTH", (1, 0): "SOUTH", (0, -1): "WEST", (0, 1): "EAST"}
CARD_INV = {v: k for k, v in CARD.items()}


def _vocab():
    return set(json.loads((VERIF / "refs" / "vocab_list_4096.json").read_text()))


_VOCAB = None


def vocab():
    global _VOCAB
    if _VOCAB is None:
        _VOCAB = _vocab()
    return _VOCAB


# ------------------------------------------------------------------------------------------------ tokenizer parameters
def params(el):
    """plain-data description of a tokenizer element (class names and field values only)"""
    import dataclasses

    if isinstance(el, tuple):
        return [params(x) for x in el]
    if dataclasses.is_dataclass(el):
        d = {"cls": type(el).__name__}
        for f in dataclasses.fields(el):
            if f.name != "_type_":
                d[f.name] = params(getattr(el, f.name))
        return d
    if isinstance(el, (bool, np.bool_)):
        return bool(el)
    return int(el)


def coord_tokens(ct, cell):
    i, j = int(cell[0]), int(cell[1])
    if ct["cls"] == "UT":
        return [f"({i},{j})"]
    return (["("] if ct["pre"] else []) + [str(i)] + ([","] if ct["intra"] else []) + [str(j)] + ([")"] if ct["post"] else [])


def read_coord(ct, toks, i):
    if ct["cls"] == "UT":
        return T.parse_coord(toks, i, ut=True)
    return T.parse_coord(toks, i, ut=False, pre=ct["pre"], intra=ct["intra"], post=ct["post"])


def rel_direction(prev, cur_, nxt):
    f = (cur_[0] - prev[0], cur_[1] - prev[1])
    m = (nxt[0] - cur_[0], nxt[1] - cur_[1])
    if m == (0, 0):
        return "STAY"
    if m == f:
        return "FORWARD"
    if m == (-f[0], -f[1]):
        return "BACKWARD"
    if m == (-f[1], f[0]):  # counter-clockwise quarter turn on a map with north up
        return "LEFT"
    if m == (f[1], -f[0]):
        return "RIGHT"
    raise ValueError("cells are not neighbouring")


def lattice_edges(n):
    out = []
    for i in range(n):
        for j in range(n):
            if i + 1 < n:
                out.append(((i, j), (i + 1, j)))
            if j + 1 < n:
                out.append(((i, j), (i, j + 1)))
    return out


def edge_bit(cl, a, b):
    return C.conn(cl, a, b)


# ------------------------------------------------------------------------------------------------ the reader
def read_adjacency(adj, ct, al):
    """adjacency region -> [(lead, trail, is_connection)]"""
    out = []
    i = 0
    order = [0, 2]
    order.insert(int(al["edge_grouping"]["connection_token_ordinal"]), 1)
    cardinal = al["cls"] == "AdjListCardinal"
    while i < len(adj):
        if al["pre"]:
            if adj[i] != ADJ_PRE:
                raise ValueError(f"expected {ADJ_PRE} at adjacency token {i}, got {adj[i]!r}")
            i += 1
        lead = trail = lab = None
        pending_card = None
        for part in order:
            if part == 0:
                lead, i = read_coord(ct, adj, i)
            elif part == 1:
                if adj[i] not in (CONN, WALL):
                    raise ValueError(f"expected a connection/wall token at adjacency token {i}, got {adj[i]!r}")
                lab = adj[i] == CONN
                i += 1
            elif cardinal:
                if adj[i] not in CARD_INV:
                    raise ValueError(f"expected a cardinal direction at adjacency token {i}, got {adj[i]!r}")
                pending_card = CARD_INV[adj[i]]
                i += 1
            else:
                trail, i = read_coord(ct, adj, i)
        if cardinal:
            trail = (lead[0] + pending_card[0], lead[1] + pending_card[1])
        if al["post"]:
            if i >= len(adj) or adj[i] != ENDLINE:
                raise ValueError(f"expected {ENDLINE!r} at adjacency token {i}")
            i += 1
        out.append((lead, trail, lab))
    return out


def check_adjacency(adj, ct, al, cl):
    """None or a message: the adjacency region lists exactly the selected edge set, correctly labelled"""
    n = cl.shape[1]
    try:
        ents = read_adjacency(adj, ct, al)
    except (ValueError, IndexError) as e:
        return f"adjacency region does not parse: {e}"
    latt = {frozenset(e) for e in lattice_edges(n)}
    for lead, trail, lab in ents:
        if frozenset((lead, trail)) not in latt or lead == trail:
            return f"entry {lead}-{trail} is not a lattice edge of the {n}x{n} grid"
        if lab != edge_bit(cl, lead, trail):
            return f"edge {lead}-{trail} is marked {'connection' if lab else 'wall'} but is a {'connection' if edge_bit(cl, lead, trail) else 'wall'}"
    sub = al["edge_subset"]
    if sub["cls"] == "AllLatticeEdges":
        want = set(latt)
    elif sub["walls"]:
        want = {e for e in latt if not edge_bit(cl, *sorted(e))}
    else:
        want = {e for e in latt if edge_bit(cl, *sorted(e))}
    got = Counter((lead, trail) for lead, trail, _ in ents)
    und = Counter(frozenset(k) for k in got.elements())
    if al["edge_permuter"]["cls"] == "BothCoords":
        if set(und) != want or any(got[(a, b)] != 1 or got[(b, a)] != 1 for a, b in (tuple(sorted(e)) for e in want)) or sum(got.values()) != 2 * len(want):
            return f"edges must appear once in each orientation; listed {sorted(got.elements())}, selected set {sorted(tuple(sorted(e)) for e in want)}"
    else:
        if set(und) != want or any(v != 1 for v in und.values()):
            return f"edges must appear exactly once; listed {sorted(got.elements())}, selected set {sorted(tuple(sorted(e)) for e in want)}"
    return None


def fork_indices(cl, sol):
    L = len(sol)
    out = []
    for i, c in enumerate(sol):
        if i == 0 or i == L - 1 or C.degree(cl, tuple(c)) > 2:
            out.append(i)
    return out


def expected_path_tokens(ct, pt, cl, sol):
    sol = [tuple(int(x) for x in p) for p in sol]
    idx = list(range(len(sol))) if pt["step_size"]["cls"] == "Singles" else fork_indices(cl, sol)
    sts = [s["cls"] for s in pt["step_tokenizers"]]
    out = []
    if "Coord" in sts:
        out += ([PATH_PRE] if pt["pre"] else []) + coord_tokens(ct, sol[0]) + ([PATH_INTRA] if pt["intra"] else [])
    for s, e in zip(idx, idx[1:]):
        if pt["pre"]:
            out.append(PATH_PRE)
        for st in sts:
            if st == "Coord":
                out += coord_tokens(ct, sol[e])
            elif st == "Cardinal":
                out.append(CARD[(sol[s + 1][0] - sol[s][0], sol[s + 1][1] - sol[s][1])])
            elif st == "Relative":
                prev = sol[s - 1] if s > 0 else (sol[0][0] + 1, sol[0][1])
                out.append(rel_direction(prev, sol[s], sol[s + 1]))
            elif st == "Distance":
                out.append(f"+{e - s}")
            else:
                raise Inconclusive(f"unknown step tokenizer {st}")
            if pt["intra"]:
                out.append(PATH_INTRA)
        if pt["post"]:
            out.append(PATH_POST)
    return out


def check_stream(tokens, P, maze):
    """None or a message: the full token stream of a concrete maze under tokenizer parameters P"""
    if not isinstance(tokens, list) or not all(isinstance(t, str) for t in tokens):
        return f"to_tokens returned {type(tokens).__name__}"
    bad = [t for t in tokens if t not in vocab()]
    if bad:
        return f"token {bad[0]!r} is not in the fixed vocabulary"
    ps = P["prompt_sequencer"]
    ct, al = ps["coord_tokenizer"], ps["adj_list_tokenizer"]
    cl = np.asarray(T.arr_concrete(maze.connection_list)).astype(bool)
    kind = type(maze).__name__
    delims = [ADJ_S, ADJ_E] + ([ORG_S, ORG_E, TGT_S, TGT_E] if kind != "LatticeMaze" else []) + ([PTH_S, PTH_E] if kind == "SolvedMaze" else [])
    pos = []
    for d in (ADJ_S, ADJ_E, ORG_S, ORG_E, TGT_S, TGT_E, PTH_S, PTH_E):
        c = tokens.count(d)
        if c != (1 if d in delims else 0):
            return f"delimiter {d} occurs {c} times in the tokens of a {kind}"
        if d in delims:
            pos.append(tokens.index(d))
    if pos != sorted(pos) or pos[0] != 0 or pos[-1] != len(tokens) - 1:
        return f"region delimiters are out of order or tokens lie outside the regions: {tokens[:3]} ... {tokens[-3:]}"
    for a, b in zip(pos[1::2], pos[2::2]):
        if b != a + 1:
            return f"tokens between regions: {tokens[a:b + 1]}"
    msg = check_adjacency(tokens[pos[0] + 1:pos[1]], ct, al, cl)
    if msg:
        return msg
    if kind == "LatticeMaze":
        return None
    s, e = tuple(int(x) for x in maze.start_pos), tuple(int(x) for x in maze.end_pos)
    org = tokens[pos[2] + 1:pos[3]]
    if org != coord_tokens(ct, s):
        return f"origin region {org} does not give the start cell {s}"
    tgt = tokens[pos[4] + 1:pos[5]]
    want = (coord_tokens(ct, e) + ([TGT_POST] if ps["target_tokenizer"]["post"] else [])) if ps["cls"] == "AOTP" else []
    if tgt != want:
        return f"target region {tgt} instead of {want} (end cell {e})"
    if kind != "SolvedMaze":
        return None
    pth = tokens[pos[6] + 1:pos[7]]
    want = expected_path_tokens(ct, ps["path_tokenizer"], cl, maze.solution)
    if pth != want:
        return f"path region {pth} instead of {want} for solution {[tuple(int(x) for x in p) for p in maze.solution]}"
    return None


# ------------------------------------------------------------------------------------------------ isconn
def _run_isconn(job):
    from maze_dataset.token_utils import is_connection
    from maze_dataset.utils import lattice_connection_array

    n, variant = job["n"], job["variant"]

    def run(ctx, pinned=None):
        cl, lat = T.sym_maze_bits(ctx, n)
        edges = lattice_connection_array(n)  # int8, as AllLatticeEdges hands it over
        if variant == "flipped":
            edges = np.flip(edges, axis=1).copy()
        elif variant == "both":
            edges = np.append(edges, np.flip(edges, axis=1), axis=0)
        elif variant == "shim":
            edges = SNP.array(SNP.asarray(SArr(edges.astype(object), "i", (8, True))))
        res = is_connection(edges, cl)
        ed = np.asarray(edges.o if isinstance(edges, SArr) else edges).astype(int)
        obs = [("one answer per edge", z3.BoolVal(tuple(res.shape) == (len(ed),)))]
        conds = []
        for k in range(len(ed)):
            a, b = tuple(int(x) for x in ed[k, 0]), tuple(int(x) for x in ed[k, 1])
            conds.append(zb(res[k]) == lat.bit[lat.edge_between(a, b)])
        obs.append((f"is_connection(edge) == that edge's bit, all {len(ed)} edges", z3.And(*conds)))
        if variant != "shim":
            def real(inp, _edges=edges):
                return [bool(x) for x in is_connection(_edges, T.concrete_bits(inp, n))]

            inp = core.path_inputs(ctx)
            m = ctx.solver.model()
            shim_vals = [bool(z3.is_true(m.eval(zb(res[k]), model_completion=True))) for k in range(len(ed))]
            if real(inp) != shim_vals:
                raise Inconclusive("shim/real disagreement on is_connection")
            ctx.notes["validated"] = 1
        # the edge list itself: every lattice edge exactly once
        obs.append(("lattice_connection_array lists every lattice edge once", z3.BoolVal(
            sorted(tuple(sorted((tuple(int(x) for x in e[0]), tuple(int(x) for x in e[1])))) for e in (ed[:len(ed) // 2] if variant == "both" else ed))
            == sorted(tuple(sorted(e)) for e in lattice_edges(n)))))
        return obs

    return run


def _replay_isconn(job, inputs, notes):
    from maze_dataset.token_utils import is_connection
    from maze_dataset.utils import lattice_connection_array

    n = job["n"]
    cl = T.concrete_bits(inputs, n)
    edges = lattice_connection_array(n)
    if sorted(tuple(sorted((tuple(int(x) for x in e[0]), tuple(int(x) for x in e[1])))) for e in edges) != sorted(tuple(sorted(e)) for e in lattice_edges(n)):
        return f"lattice-edges-wrong | lattice_connection_array({n}) is not the lattice edge set"
    if job["variant"] in ("flipped",):
        edges = np.flip(edges, axis=1).copy()
    elif job["variant"] == "both":
        edges = np.append(edges, np.flip(edges, axis=1), axis=0)
    res = is_connection(edges, cl)
    for k, e in enumerate(edges):
        a, b = tuple(int(x) for x in e[0]), tuple(int(x) for x in e[1])
        if bool(res[k]) != edge_bit(cl, a, b):
            return (f"edge-label-wrong | is_connection on a {n}x{n} maze: edge {a}-{b} reported as {'connection' if res[k] else 'wall'} "
                    f"but is a {'connection' if edge_bit(cl, a, b) else 'wall'}")
    return None


# ------------------------------------------------------------------------------------------------ edge_label
def _adj_tokenizers(which="valid"):
    return K.real_instances("_AdjListTokenizer")


def _coord_tokenizers():
    return K.real_instances("_CoordTokenizer")


def _run_edge_label(job):
    n = job["n"]

    def run(ctx, pinned=None):
        cl, lat = T.sym_maze_bits(ctx, n)
        edges = lattice_edges(n)
        k = ctx.choose(len(edges))
        flip = ctx.choose(2)
        ai = job["adj"][ctx.choose(len(job["adj"]))]
        ci = job["coord"][ctx.choose(len(job["coord"]))]
        ctx.inputs.update(edge=z3.IntVal(k), flip=z3.IntVal(flip), adj=z3.IntVal(ai), coord=z3.IntVal(ci))
        a, b = edges[k] if not flip else edges[k][::-1]
        al, ct = _adj_tokenizers()[ai], _coord_tokenizers()[ci]
        maze = T._cls("LatticeMaze")(connection_list=cl)
        grp = np.array([[list(a), list(b)]], dtype=np.int8)
        with T.TokEnv(linked=True):
            toks = list(al._tokenize_edge_grouping(grp, maze, ct, al.edge_grouping._token_params()))
        P_al, P_ct = params(al), params(ct)
        P_al = dict(P_al, pre=False, post=False)  # pre/post delimiters are added by to_tokens, not by the grouping
        try:
            ents = read_adjacency(toks, P_ct, P_al)
            ok = len(ents) == 1 and ents[0][0] == a and ents[0][1] == b
        except (ValueError, IndexError):
            ok, ents = False, []
        obs = [("edge tokens read back as the same oriented edge", z3.BoolVal(ok))]
        if ok:
            obs.append(("connection/wall token reflects that edge's bit", z3.BoolVal(ents[0][2]) == lat.bit[lat.edge_between(a, b)]))
        return obs

    return run


def _replay_edge_label(job, inputs, notes):
    n = job["n"]
    cl = T.concrete_bits(inputs, n)
    edges = lattice_edges(n)
    a, b = edges[inputs["edge"]] if not inputs["flip"] else edges[inputs["edge"]][::-1]
    al, ct = _adj_tokenizers()[inputs["adj"]], _coord_tokenizers()[inputs["coord"]]
    maze = T._cls("LatticeMaze")(connection_list=cl)
    grp = np.array([[list(a), list(b)]], dtype=np.int8)
    try:
        toks = list(al._tokenize_edge_grouping(grp, maze, ct, al.edge_grouping._token_params()))
    except Exception as e:
        return f"edge-tokens-raise | {al.name} / {ct.name}: edge {a}-{b} raised {type(e).__name__}: {str(e)[:80]}"
    P_al = dict(params(al), pre=False, post=False)
    try:
        ents = read_adjacency(toks, params(ct), P_al)
    except (ValueError, IndexError) as e:
        return f"edge-tokens-unreadable | {al.name} / {ct.name}: edge {a}-{b} tokenized as {toks}: {e}"
    if len(ents) != 1 or ents[0][0] != a or ents[0][1] != b:
        return f"edge-tokens-wrong | {al.name} / {ct.name}: edge {a}-{b} tokenized as {toks}, read back as {ents}"
    if ents[0][2] != edge_bit(cl, a, b):
        return (f"edge-label-wrong | {al.name} / {ct.name}: edge {a}-{b} tokenized as {toks} but is a "
                f"{'connection' if edge_bit(cl, a, b) else 'wall'}; connection_list={cl.astype(int).tolist()}")
    return None


# ------------------------------------------------------------------------------------------------ directions / coords
DELTAS = [(0, 0), (-1, 0), (1, 0), (0, -1), (0, 1)]


def _run_directions(job):
    from maze_dataset.token_utils import get_cardinal_direction, get_relative_direction

    def run(ctx, pinned=None):
        n = job["n"]
        ci, cj = fresh_int("ci", 0, n - 1), fresh_int("cj", 0, n - 1)
        d1 = DELTAS[1 + ctx.choose(4)]           # facing: previous -> current is a unit step
        d2 = DELTAS[ctx.choose(5)]               # current -> next: unit step or stay
        ctx.inputs.update(d1=z3.IntVal(DELTAS.index(d1)), d2=z3.IntVal(DELTAS.index(d2)))
        dt = np.int8 if job["int8"] else None
        cur_ = SNP.array([ci, cj]) if dt is None else SNP.array([ci, cj]).astype(dt)
        prev = cur_ - np.array(d1, dtype=dt or np.int64)
        nxt = cur_ + np.array(d2, dtype=dt or np.int64)
        coords = SNP.stack([prev, cur_, nxt])
        obs = []
        with T.TokEnv(linked=True):
            rel = get_relative_direction(coords)
            obs.append(("relative direction", z3.BoolVal(rel == rel_direction((0 - d1[0], 0 - d1[1]), (0, 0), d2))))
            if d2 != (0, 0):
                card = get_cardinal_direction(coords[1:])
                obs.append(("cardinal direction", z3.BoolVal(card == CARD[d2])))
        return obs

    return run


def _replay_directions(job, inputs, notes):
    from maze_dataset.token_utils import get_cardinal_direction, get_relative_direction

    d1, d2 = DELTAS[inputs["d1"]], DELTAS[inputs["d2"]]
    c = (inputs.get("ci", 0), inputs.get("cj", 0))
    dt = np.int8 if job["int8"] else np.int64
    coords = np.array([(c[0] - d1[0], c[1] - d1[1]), c, (c[0] + d2[0], c[1] + d2[1])], dtype=dt)
    try:
        rel = get_relative_direction(coords)
    except Exception as e:
        return f"direction-raises | get_relative_direction({coords.tolist()}) raised {type(e).__name__}: {str(e)[:80]}"
    want = rel_direction((0 - d1[0], 0 - d1[1]), (0, 0), d2)
    if rel != want:
        return f"direction-wrong | get_relative_direction({coords.tolist()}) = {rel}, expected {want}"
    if d2 != (0, 0) and get_cardinal_direction(coords[1:]) != CARD[d2]:
        return f"direction-wrong | get_cardinal_direction({coords[1:].tolist()}) = {get_cardinal_direction(coords[1:])}, expected {CARD[d2]}"
    return None


def _run_coords(job):
    def run(ctx, pinned=None):
        n = job["n"]
        cts = _coord_tokenizers()
        k = ctx.choose(len(cts))
        ctx.inputs["ct"] = z3.IntVal(k)
        i = fresh_int("i", 0, n - 1)
        j = fresh_int("j", job["j"], job["j"])
        toks = cts[k].to_tokens(SNP.array([i, j]) if job["arr"] else (i, j))
        iv = int(i)
        ok = toks == coord_tokens(params(cts[k]), (iv, job["j"])) and all(t in vocab() for t in toks)
        try:
            back, end = read_coord(params(cts[k]), toks, 0)
            ok = ok and back == (iv, job["j"]) and end == len(toks)
        except (ValueError, IndexError):
            ok = False
        return [("coordinate tokens are the published rendering, in the vocabulary, and read back as the cell", z3.BoolVal(ok))]

    return run


def _replay_coords(job, inputs, notes):
    ct = _coord_tokenizers()[inputs["ct"]]
    cell = (inputs.get("i", 0), job["j"])
    toks = ct.to_tokens(np.array(cell))
    if toks != coord_tokens(params(ct), cell) or any(t not in vocab() for t in toks):
        return f"coord-tokens-wrong | {ct.name}: cell {cell} tokenized as {toks}"
    return None


# ------------------------------------------------------------------------------------------------ adj / path / full
def _tokenizer_from(job):
    """the complete tokenizer a job addresses: indices into the verified element pools"""
    import maze_dataset.tokenization as t

    ct = _coord_tokenizers()[job.get("ct", 0)]
    kw = dict(coord_tokenizer=ct)
    if "al" in job:
        kw["adj_list_tokenizer"] = _adj_tokenizers()[job["al"]]
    if "pt" in job:
        kw["path_tokenizer"] = K.real_instances("_PathTokenizer")[job["pt"]]
    if job.get("seq", "AOTP") == "AOTP":
        if "tt" in job:
            kw["target_tokenizer"] = K.real_instances("_TargetTokenizer")[job["tt"]]
        return t.MazeTokenizerModular(prompt_sequencer=t.PromptSequencers.AOTP(**kw))
    return t.MazeTokenizerModular(prompt_sequencer=t.PromptSequencers.AOP(**kw))


def _pick(ctx, job, key, name):
    """a job may carry a list of pool indices under `key`: the path chooses one (solver-free)"""
    v = job[key]
    if isinstance(v, list):
        v = v[ctx.choose(len(v))]
    ctx.inputs[name] = z3.IntVal(v)
    return v


def _run_stream(job):
    """to_tokens of a complete tokenizer on a (semi-)symbolic maze; every path is concrete by the time the stream exists"""
    keys = [k for k in ("ct", "al", "tt", "pt") if k in job]

    def run(ctx, pinned=None):
        if "toks" in job:
            ti = ctx.choose(len(job["toks"]))
            ctx.inputs["sel_tok"] = z3.IntVal(ti)
            tok = _tokenizer_from(job["toks"][ti])
        else:
            sel = {k: _pick(ctx, job, k, "sel_" + k) for k in keys}
            tok = _tokenizer_from(dict(job, **sel))
        with T.TokEnv(reps_only=True, linked=job.get("linked", True)):
            maze, lat, ends = T.build_sym_maze(ctx, job["maze"])
            toks = tok.to_tokens(maze)
            msg = check_stream(toks, params(tok), maze)
        if msg is None:
            core.validate_path(ctx, list(toks), lambda inp: _real_stream(job, inp), every=job.get("validate_every", 8), what="to_tokens")
        ctx.notes["msg"] = msg
        return [("token stream: regions once and in order, vocabulary, adjacency = selected edge set with correct labels, origin, target, path", z3.BoolVal(msg is None))]

    return run


def _real_stream(job, inputs):
    if "toks" in job:
        tok = _tokenizer_from(job["toks"][inputs.get("sel_tok", 0)])
    else:
        sel = {k: inputs.get("sel_" + k, job[k] if not isinstance(job[k], list) else job[k][0]) for k in ("ct", "al", "tt", "pt") if k in job}
        tok = _tokenizer_from(dict(job, **sel))
    maze = T.build_concrete_maze(inputs, job["maze"])
    with T.TokEnv(script=inputs, reps_only=True, linked=job.get("linked", True)):
        return list(tok.to_tokens(maze))


def _replay_stream(job, inputs, notes):
    if "toks" in job:
        tok = _tokenizer_from(job["toks"][inputs.get("sel_tok", 0)])
    else:
        sel = {k: inputs.get("sel_" + k, job[k] if not isinstance(job[k], list) else job[k][0]) for k in ("ct", "al", "tt", "pt") if k in job}
        tok = _tokenizer_from(dict(job, **sel))
    maze = T.build_concrete_maze(inputs, job["maze"])
    if maze is None:
        return None
    with T.TokEnv(script=inputs, reps_only=True, linked=job.get("linked", True)):
        try:
            toks = tok.to_tokens(maze)
        except Exception as e:
            return f"tokenizer-raises | {tok.name}: to_tokens raised {type(e).__name__}: {str(e)[:100]}; {T.describe(maze)}"
    msg = check_stream(toks, params(tok), maze)
    if msg is None:
        return None
    return f"stream-wrong | {tok.name}: {msg}; {T.describe(maze)}"


# path element around a concrete solution: bits on the solution are set, all others symbolic (Forks reads the degrees)
def _run_path_forks(job):
    n = job["n"]

    def run(ctx, pinned=None):
        si = ctx.choose(len(job["sols"]))
        ctx.inputs["sel_sol"] = z3.IntVal(si)
        sol = [tuple(p) for p in job["sols"][si]]
        cl, lat = T.sym_maze_bits(ctx, n)
        for a, b in zip(sol, sol[1:]):
            ctx.solver.add(lat.bit[lat.edge_between(a, b)])
        pts = K.real_instances("_PathTokenizer")
        pi = _pick(ctx, job, "pt", "sel_pt")
        ci = _pick(ctx, job, "ct", "sel_ct")
        pt, ct = pts[pi], _coord_tokenizers()[ci]
        maze = T._cls("SolvedMaze")(connection_list=cl, solution=np.array(sol))
        with T.TokEnv(linked=True):
            toks = list(pt.to_tokens(maze, ct))
        # expected tokens as a function of the symbolic degrees: decided per path for every completion of the unread bits
        P_pt, P_ct = params(pt), params(ct)
        cands = {}
        interior = [i for i in range(1, len(sol) - 1)]
        deg_gt2 = {i: z3.Sum([z3.If(b, 1, 0) for _, b in lat.adj(sol[i])]) > 2 for i in interior}
        obs = []
        if P_pt["step_size"]["cls"] == "Singles":
            want = expected_path_tokens(P_ct, P_pt, np.zeros((2, n, n), bool), sol)
            obs.append(("path tokens (Singles)", z3.BoolVal(toks == want)))
        else:
            # for each subset of interior fork positions consistent with the tokens, the tokens must equal the expectation
            conds = []
            for mask in itertools.product([False, True], repeat=len(interior)):
                idx = [0] + [i for i, m in zip(interior, mask) if m] + ([len(sol) - 1] if len(sol) > 1 else [])
                want = _expected_with_idx(P_ct, P_pt, sol, idx)
                pre = z3.And(*[deg_gt2[i] if m else z3.Not(deg_gt2[i]) for i, m in zip(interior, mask)]) if interior else z3.BoolVal(True)
                conds.append(z3.Implies(pre, z3.BoolVal(toks == want)))
            obs.append(("path tokens (Forks) for every maze around this solution", z3.And(*conds)))
        return obs

    return run


def _expected_with_idx(ct, pt, sol, idx):
    sts = [s["cls"] for s in pt["step_tokenizers"]]
    out = []
    if "Coord" in sts:
        out += ([PATH_PRE] if pt["pre"] else []) + coord_tokens(ct, sol[0]) + ([PATH_INTRA] if pt["intra"] else [])
    for s, e in zip(idx, idx[1:]):
        if pt["pre"]:
            out.append(PATH_PRE)
        for st in sts:
            if st == "Coord":
                out += coord_tokens(ct, sol[e])
            elif st == "Cardinal":
                out.append(CARD[(sol[s + 1][0] - sol[s][0], sol[s + 1][1] - sol[s][1])])
            elif st == "Relative":
                prev = sol[s - 1] if s > 0 else (sol[0][0] + 1, sol[0][1])
                out.append(rel_direction(prev, sol[s], sol[s + 1]))
            else:
                out.append(f"+{e - s}")
            if pt["intra"]:
                out.append(PATH_INTRA)
        if pt["post"]:
            out.append(PATH_POST)
    return out


def _replay_path_forks(job, inputs, notes):
    sol = [tuple(p) for p in job["sols"][inputs.get("sel_sol", 0)]]
    n = job["n"]
    cl = T.concrete_bits(inputs, n)
    for a, b in zip(sol, sol[1:]):
        d = 0 if a[0] != b[0] else 1
        cl[d, min(a[0], b[0]), min(a[1], b[1])] = True
    pt = K.real_instances("_PathTokenizer")[inputs.get("sel_pt", job["pt"] if not isinstance(job["pt"], list) else job["pt"][0])]
    ct = _coord_tokenizers()[inputs.get("sel_ct", job["ct"] if not isinstance(job["ct"], list) else job["ct"][0])]
    maze = T._cls("SolvedMaze")(connection_list=cl, solution=np.array(sol))
    try:
        toks = list(pt.to_tokens(maze, ct))
    except Exception as e:
        return f"tokenizer-raises | {pt.name}: to_tokens raised {type(e).__name__}: {str(e)[:100]}; {T.describe(maze)}"
    want = expected_path_tokens(params(ct), params(pt), cl, sol)
    if toks != want:
        return f"path-tokens-wrong | {pt.name} / {ct.name}: {toks} instead of {want}; {T.describe(maze)}"
    return None


# ------------------------------------------------------------------------------------------------ jobs
def warmup():
    core.STR_CONCRETISES = True
    for r in ("_CoordTokenizer", "_AdjListTokenizer", "_TargetTokenizer", "_PathTokenizer"):
        K.real_instances(r)
    vocab()


def _idx_where(pool, pred):
    return [i for i, x in enumerate(pool) if pred(x)]


def _simple_paths(n, maxlen, seed, count):
    rng = np.random.default_rng(seed)
    out = []
    tries = 0
    while len(out) < count and tries < 500:
        tries += 1
        L = int(rng.integers(1, maxlen + 1))
        p = [(int(rng.integers(n)), int(rng.integers(n)))]
        while len(p) < L:
            u = p[-1]
            nb = [v for v in ((u[0] + 1, u[1]), (u[0] - 1, u[1]), (u[0], u[1] + 1), (u[0], u[1] - 1)) if 0 <= v[0] < n and 0 <= v[1] < n and v not in p]
            if not nb:
                break
            p.append(nb[int(rng.integers(len(nb)))])
        if p not in out:
            out.append(p)
    return out


def _all_simple_paths(n, maxlen):
    out = []

    def ext(p):
        out.append(list(p))
        if len(p) >= maxlen:
            return
        u = p[-1]
        for v in ((u[0] + 1, u[1]), (u[0] - 1, u[1]), (u[0], u[1] + 1), (u[0], u[1] - 1)):
            if 0 <= v[0] < n and 0 <= v[1] < n and v not in p:
                ext(p + [v])

    for i in range(n):
        for j in range(n):
            ext([(i, j)])
    return out


def jobs(tier, seed):
    q = tier == "quick"
    rng = np.random.default_rng(seed + 6)
    out = []
    cts, als, pts, tts = _coord_tokenizers(), _adj_tokenizers(), K.real_instances("_PathTokenizer"), K.real_instances("_TargetTokenizer")
    ct_ut = _idx_where(cts, lambda x: type(x).__name__ == "UT")[0]
    ct_full = _idx_where(cts, lambda x: type(x).__name__ == "CTT" and x.pre and x.intra and x.post)[0]
    ct_bare = _idx_where(cts, lambda x: type(x).__name__ == "CTT" and not x.pre and not x.intra and not x.post)[0]
    all_ct, all_al, all_pt = list(range(len(cts))), list(range(len(als))), list(range(len(pts)))
    # (a) is_connection on whole lattices
    for n in ([2, 3, 5, 11, 12, 13, 16, 20, 50] if q else [2, 3, 4, 5, 8, 10, 11, 12, 13, 14, 16, 17, 20, 23, 32, 50]):
        for variant in (("both", "shim") if n <= 20 else ("plain", "flipped")):
            out.append(dict(h="isconn", n=n, variant=variant, max_seconds=3000))
    # (b) per-edge labelling, every bit symbolic: all 216 adjacency configurations on 3x3, two per class on 12x12
    for ch in range(0, len(als), 18):
        out.append(dict(h="edge_label", n=3, adj=all_al[ch:ch + 18], coord=[[ct_ut, ct_full, ct_bare][(ch // 18) % 3]]))
    if not q:
        for ch in range(0, len(als), 18):
            out.append(dict(h="edge_label", n=4, adj=all_al[ch:ch + 18], coord=[[ct_full, ct_bare, ct_ut][(ch // 18) % 3]]))
    by_cls = {}
    for i, a in enumerate(als):
        by_cls.setdefault((type(a).__name__, int(a.edge_grouping.connection_token_ordinal)), i)
    for n in ((12,) if q else (12, 13, 20)):
        for i in sorted(by_cls.values())[:: (3 if q else 1)]:
            out.append(dict(h="edge_label", n=n, adj=[i], coord=[ct_ut]))
    # directions / coordinates anywhere in a 50x50 grid
    for int8 in (False, True):
        out.append(dict(h="directions", n=50, int8=int8))
    for j in ((0, 9, 10, 49) if q else (0, 1, 9, 10, 11, 25, 49)):
        out.append(dict(h="coords", n=50, j=j, arr=bool(j % 2)))
    # (c) adjacency element: all 216 configurations, 2x2 all mazes, UT and full CTT; all 9 coordinate tokenizers on a slice
    m2 = dict(n=2, kind="LatticeMaze", sym_bits="all", rowcol=False)
    for ch in range(0, len(als), 12):
        out.append(dict(h="stream", maze=m2, ct=[ct_ut, ct_full], al=all_al[ch:ch + 12]))
    sl = sorted(int(i) for i in rng.choice(len(als), size=12 if q else 48, replace=False))
    out.append(dict(h="stream", maze=m2, ct=all_ct, al=sl))
    b3 = T.base_maze(3, "perc", seed + 61)
    m3 = dict(n=3, kind="LatticeMaze", base=b3.astype(int).tolist(), sym_bits=[[0, 0, 1], [1, 1, 1], [1, 2, 0]] if q else [[0, 0, 1], [1, 1, 1], [1, 2, 0], [0, 1, 2]], rowcol=False)
    for ch in range(0, len(als), 24):
        out.append(dict(h="stream", maze=m3, ct=[ct_ut if (ch // 24) % 2 else ct_bare], al=all_al[ch:ch + 24]))
    # (d) path element: all 1008 configurations around every simple path of the 2x2 grid (incl. one-cell solutions), other bits symbolic
    p2 = _all_simple_paths(2, 4)
    step = 42
    for ch in range(0, len(pts), step):
        for part in range(2):
            out.append(dict(h="path_forks", n=2, sols=[[list(c) for c in p] for p in p2[part::2]], pt=all_pt[ch:ch + step], ct=[[ct_ut, ct_full, ct_bare][(ch // step) % 3]]))
    out.append(dict(h="path_forks", n=2, sols=[[list(c) for c in p] for p in p2], pt=sorted(int(i) for i in rng.choice(len(pts), size=6 if q else 30, replace=False)), ct=all_ct))
    # Forks / Singles around concrete solutions on 3x3 and 4x4 (degree > 2 needs them), surrounding bits symbolic
    forks_pts = _idx_where(pts, lambda x: type(x.step_size).__name__ == "Forks")
    for n in (3, 4):
        sols = _simple_paths(n, 5 if (n == 3 or q) else 6, seed + n, 6 if q else 16) + [[(1, 1)], [(0, 0), (0, 1)], [(1, 0), (1, 1), (1, 2)], [(0, 1), (1, 1), (1, 2), (2, 2)]]
        for sol in sols:
            pick = sorted(int(i) for i in rng.choice(forks_pts, size=(8 if n == 3 else 3) if q else 40, replace=False)) + sorted(int(i) for i in rng.choice(all_pt, size=4 if n == 3 else 2, replace=False))
            if n == 4 and len(sol) >= 5:
                for pi in (pick[:3] if q else pick):
                    out.append(dict(h="path_forks", n=n, sols=[[list(p) for p in sol]], pt=[pi], ct=[ct_ut], max_seconds=3000))
            else:
                out.append(dict(h="path_forks", n=n, sols=[[list(p) for p in sol]], pt=pick, ct=[ct_ut, ct_bare] if not q else [ct_ut]))
    # (e) complete tokenizers on the three maze kinds
    def toks(k, seq=None):
        res = []
        for _ in range(k):
            sq = seq or ("AOTP", "AOP")[int(rng.integers(2))]
            d = dict(seq=sq, ct=int(rng.integers(len(cts))), al=int(rng.integers(len(als))), pt=int(rng.integers(len(pts))))
            if sq == "AOTP":
                d["tt"] = int(rng.integers(len(tts)))
            res.append(d)
        return res

    for kind in ("LatticeMaze", "TargetedLatticeMaze", "SolvedMaze"):
        out.append(dict(h="stream", toks=toks(4 if q else 12), maze=dict(n=2, kind=kind, sym_bits="all", ends="sym", rowcol=False)))
        b = T.base_maze(3, "dfs", seed + 17)
        out.append(dict(h="stream", toks=toks(6 if q else 24), maze=dict(n=3, kind=kind, base=b.astype(int).tolist(), sym_bits=[[0, 0, 0], [1, 1, 1]], ends=_far(b), rowcol=False)))
    for n in ([6, 11, 12, 13, 20] if q else [5, 6, 7, 9, 10, 11, 12, 13, 14, 16, 20, 25, 33, 50]):
        for bk in ("dfs", "perc"):
            if q and bk == "perc" and n not in (12, 13):
                continue
            b = T.base_maze(n, bk, seed * 10 + n)
            tk = toks(3 if q else 6)
            tk.append(dict(seq="AOTP", ct=ct_ut, al=int(rng.integers(len(als))), pt=int(rng.integers(len(pts))), tt=0))
            out.append(dict(h="stream", toks=tk, maze=dict(n=n, kind="SolvedMaze", base=b.astype(int).tolist(), sym_bits=_sym_positions(b, 1 if n > 13 else 2, rng), ends=_far(b), rowcol=False)))
    out.sort(key=lambda j: 0 if (j["h"] == "isconn" and j["n"] >= 20) else 1)
    out.append(dict(_alias.ALIAS_JOB))  # results must not alias library state, arguments or each other (props/alias_common.py)
    return out


def _far(cl):
    from props.c07 import _far_cells

    return _far_cells(cl)


def _sym_positions(base, k, rng):
    from props.c07 import _sym_positions as f

    return f(base, k, rng)


_P = dict(np_modules=[], stub_ascii=True)
HARNESSES = {
    "isconn": dict(run=_run_isconn, replay=_replay_isconn, patch=_P),
    "edge_label": dict(run=_run_edge_label, replay=_replay_edge_label, patch=_P),
    "directions": dict(run=_run_directions, replay=_replay_directions, patch=_P),
    "coords": dict(run=_run_coords, replay=_replay_coords, patch=_P),
    "stream": dict(run=_run_stream, replay=_replay_stream, patch=_P),
    "path_forks": dict(run=_run_path_forks, replay=_replay_path_forks, patch=_P),
}
HARNESSES["alias"] = _alias.alias_harness("C06")

META = dict(
    functions=["_AdjListTokenizer.to_tokens/_tokenize_edge_grouping", "AdjListCoord/AdjListCardinal._tokenization_callables", "EdgeSubsets.*._get_edges", "EdgePermuters.*._permute",
               "EdgeGroupings.Ungrouped._group_edges/_token_params", "token_utils.is_connection/connection_list_to_adj_list/get_cardinal_direction/get_relative_direction",
               "utils.lattice_connection_array", "CoordTokenizers.UT/CTT.to_tokens", "TargetTokenizers.Unlabeled.to_tokens", "PathTokenizers.StepSequence.to_tokens/_single_step_tokens/_leading_tokens",
               "StepSizes.Singles/Forks._step_single_indices/step_start_end_indices", "StepTokenizers.Coord/Cardinal/Relative/Distance.to_tokens",
               "SolvedMaze.get_solution_forking_points", "_PromptSequencer.to_tokens/_get_prompt_regions/_trim_if_unsolved_maze", "AOTP/AOP._sequence_tokens", "MazeTokenizerModular.to_tokens"],
    bounds=dict(
        quick="isconn: whole lattices 2..50 (every bit symbolic, every edge, both orientations); edge_label: grids 3 and 12, all 216 adjacency configurations; "
              "adj: all 216 configurations x {UT, CTT} on all 2x2 mazes and on a 3x3 base with 3 symbolic bits, 12 configurations x all 9 coordinate tokenizers; "
              "path: all 1008 configurations around every simple path of the 2x2 grid (28 solutions incl. one-cell ones, all other bits symbolic), Forks around 10 "
              "concrete solutions per grid on 3x3/4x4 with all other bits symbolic; full: seeded samples of complete tokenizers x 3 kinds on 2x2 (all mazes, all "
              "endpoint pairs), 3x3 and on generated 6/11/12/13/20 grids with 1-2 symbolic bits",
        thorough="more grids (up to 50 for full streams), 4 symbolic bits on 3x3, 14 solutions per grid, larger samples"),
    degenerate=dict(stream="tokens are Python strings and the tokenizers look every selected edge's bit up in a dict: paths = mazes x RNG representatives in the bound "
                           "(exhaustive enumeration; the solver only keeps the bookkeeping)",
                    isconn="none: one path per grid, the solver decides all 2^(2n(n-1)) mazes at once",
                    edge_label="the tokenized edge's own bit is forked; every other bit stays symbolic",
                    path_forks="bits next to the solution are forked by get_coord_neighbors; the rest stay symbolic; the obligation covers every completion",
                    directions="direction pairs are enumerated; the cell is symbolic", coords="the printed coordinate is forked over its 50 values"),
    stubs=T.STUBS + ["tokenizer elements are taken from the pools that C15 verifies against the parameter space"],
    outside=["complete tokenizers beyond the covering samples (the regions are checked exhaustively per element instead)", "full streams on grids above 20 in the quick tier",
             "RNG outcomes beyond three linked representatives per execution (order/orientation only)", "mark_as_unsupported element classes"],
    assumptions=["token texts and the vocabulary are the published ones (written out in this file / refs/vocab_list_4096.json)",
                 "Forks includes both endpoints and every interior solution cell with more than two open neighbours"],
)

META.setdefault("degenerate", {})["alias"] = _alias.ALIAS_META
