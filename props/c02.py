"""C02 - shortest-path solver is sound, optimal and complete on every maze.

The real `LatticeMaze.find_shortest_path` runs on a maze whose connection bits are all symbolic.
A* only branches on the edges it inspects; on each path the post-condition is proved for every
completion of the unread bits with one z3 query.
"""

from __future__ import annotations

import itertools

import numpy as np
import z3

from symx.core import Inconclusive
from symx.harness import conn_from_cex, pin, py_path, sym_connection_list, stubs_description

from props import alias_common as _alias

ID = "C02"


def _pairs(r, c, which):
    cells = [(i, j) for i in range(r) for j in range(c)]
    if which == "all":
        return [(s, e) for s in cells for e in cells]
    # corners, centre, edge midpoints
    pts = {(0, 0), (0, c - 1), (r - 1, 0), (r - 1, c - 1), (r // 2, c // 2), (0, c // 2), (r // 2, 0)}
    pts = sorted(pts)
    prs = [(s, e) for s in pts for e in pts]
    return prs[:: max(1, len(prs) // which)] if isinstance(which, int) else prs


def jobs(tier, seed):
    out = []
    shapes_all = [(r, c) for r in range(1, 7) for c in range(1, 7) if r * c <= 6]
    for r, c in shapes_all:
        for s, e in _pairs(r, c, "all"):
            out.append(dict(h="astar", r=r, c=c, s=list(s), e=list(e)))
    if tier == "quick":
        prs = [((0, 0), (2, 2)), ((2, 2), (0, 0)), ((0, 2), (2, 0)), ((1, 1), (0, 0)), ((0, 0), (1, 1)), ((0, 1), (2, 1)),
               ((1, 0), (1, 2)), ((2, 0), (0, 1)), ((0, 0), (0, 2)), ((1, 1), (1, 1)), ((2, 1), (0, 0)), ((1, 2), (0, 1))]
        for s, e in prs:
            out.append(dict(h="astar", r=3, c=3, s=list(s), e=list(e)))
    else:
        for s, e in _pairs(3, 3, "all"):
            out.append(dict(h="astar", r=3, c=3, s=list(s), e=list(e)))
    # 3x4 and 4x3 exhaustively (thorough tier, four endpoint pairs each): the 2^17 mazes split over 16 instances by four bits around the centre
    import itertools as _it2

    for r, c in [(3, 4), (4, 3)]:
        names4 = ["c_0_0_1", "c_1_1_1", "c_0_1_1", "c_1_1_0"] if (r, c) == (3, 4) else ["c_0_1_1", "c_1_1_1", "c_0_0_1", "c_1_2_0"]
        prs4 = [((0, 0), (r - 1, c - 1)), ((r - 1, 0), (0, c - 1)), ((1, 1), (r - 1, c - 1)), ((0, c - 1), (r - 1, 1))]
        for s_, e_ in ([] if tier == "quick" else prs4):  # (one pair in the quick tier was measured at +90 s wall: thorough only)
            for vals in _it2.product([False, True], repeat=4):
                out.append(dict(h="astar", r=r, c=c, s=list(s_), e=list(e_), fix=dict(zip(names4, vals)), max_seconds=3300,
                                label=f"astar:{r}x{c}:{s_}->{e_}:" + "".join("1" if v else "0" for v in vals)))
    if tier != "quick":
        # a wide grid (cols >= rows + 6): one far-apart endpoint pair on 2x8, the 2^22 mazes split over 64 instances by six bits next to the start
        import itertools as _it

        names = ["c_0_0_7", "c_1_0_6", "c_1_1_6", "c_0_0_6", "c_1_0_5", "c_1_1_5"]
        for vals in _it.product([False, True], repeat=len(names)):
            out.append(dict(h="astar", r=2, c=8, s=[0, 7], e=[1, 0], fix=dict(zip(names, vals)), max_seconds=3300,
                            label="astar:2x8:(0,7)->(1,0):" + "".join("1" if v else "0" for v in vals)))
    # solved-maze constructor path (from_targeted_lattice_maze)
    for r, c in [(2, 2), (2, 3)] + ([(3, 3)] if tier != "quick" else []):
        for s, e in ([((0, 0), (r - 1, c - 1)), ((r - 1, c - 1), (0, 1))] if tier == "quick" else _pairs(r, c, "all")):
            out.append(dict(h="solve_targeted", r=r, c=c, s=list(s), e=list(e)))
    # larger grids "randomly" (as the property's quantifier says): seeded dense base mazes (edge density 0.7: many cycles) with 4 connection bits left
    # symbolic (16 mazes per instance), far-apart and mid-range endpoint pairs
    rngb = np.random.default_rng(seed * 7 + 11)
    for (r, c), nb in ([((4, 3), 3), ((4, 4), 5), ((5, 5), 8), ((3, 5), 2), ((6, 6), 4), ((2, 8), 5), ((2, 11), 3), ((3, 9), 3), ((9, 2), 2)] if tier == "quick" else [((4, 3), 6), ((3, 4), 6), ((4, 4), 16), ((5, 5), 24), ((3, 5), 6), ((6, 6), 12), ((8, 8), 6), ((2, 9), 4)]):
        edges = [(0, i, j) for i in range(r - 1) for j in range(c)] + [(1, i, j) for i in range(r) for j in range(c - 1)]
        cells = [(i, j) for i in range(r) for j in range(c)]
        for b in range(nb):
            free = set(int(x) for x in rngb.choice(len(edges), size=4, replace=False))
            fix = {f"c_{d}_{i}_{j}": bool(rngb.random() < 0.7) for k, (d, i, j) in enumerate(edges) if k not in free}
            prs = set()
            while len(prs) < (6 if tier == "quick" else 12):
                a, bb = (cells[int(x)] for x in rngb.choice(len(cells), size=2, replace=False))
                if abs(a[0] - bb[0]) + abs(a[1] - bb[1]) >= 3:
                    prs.add((a, bb))
            for a, bb in sorted(prs):
                out.append(dict(h="astar", r=r, c=c, s=list(a), e=list(bb), fix=fix, max_seconds=3000, label=f"astar:{r}x{c} base#{b} free{sorted(free)} {a}->{bb}"))
    # mazes that carry (accurate) generation metadata: a recorded component in one part of the grid, queries in the rest
    for r, c, V in [(3, 3, [(0, 0), (1, 0), (2, 0)]), (2, 3, [(0, 0), (1, 0)]), (3, 3, [(1, 1)])] + ([(3, 4, [(0, 0), (0, 1)]), (3, 3, [(0, 2), (0, 1), (0, 0)])] if tier != "quick" else []):
        rest = [(i, j) for i in range(r) for j in range(c) if (i, j) not in V]
        prs = [(a, b) for a in rest for b in rest if a != b]
        if tier == "quick":
            prs = prs[::3]
        for a, b in prs + [(V[0], rest[0]), (rest[-1], V[-1]), (V[0], V[-1])]:
            out.append(dict(h="astar", r=r, c=c, s=list(a), e=list(b), meta_component=[list(v) for v in V], max_seconds=3000))
    # query histories on one maze object (same start twice, then a repeat of the first query)
    def seqs(r, c, starts, k):
        cells = [(i, j) for i in range(r) for j in range(c)]
        rng = np.random.default_rng(seed * 1009 + r * 10 + c)
        res = []
        for st in starts:
            others = [x for x in cells if x != st]
            for _ in range(k):
                e1, e2 = (others[i] for i in rng.choice(len(others), size=2, replace=False))
                res.append([[list(st), list(e1)], [list(st), list(e2)]] + ([[list(e2), list(st)], [list(st), list(e1)]] if (tier != "quick" or r * c <= 6) else []))
        return res

    for r, c, starts, k in ([(2, 3, [(0, 0), (0, 1), (1, 2)], 2), (2, 4, [(0, 0), (1, 1)], 2), (3, 3, [(0, 0), (1, 0), (1, 1), (2, 1)], 2 if tier == "quick" else 10)]
                            + ([(2, 4, [(0, 1), (0, 3), (1, 0), (1, 2)], 4), (2, 3, [(0, 2), (1, 0), (1, 1)], 4)] if tier != "quick" else [])):
        for q_ in seqs(r, c, starts, k):
            if tier != "quick" and r * c == 9:
                q_ = q_[:2]  # on 9 cells two queries per history (four queries walk through nearly all 4096 mazes per instance)
            out.append(dict(h="astar_seq", r=r, c=c, queries=q_, max_seconds=3000))
    out.append(dict(_alias.ALIAS_JOB))  # results must not alias library state, arguments or each other (props/alias_common.py)
    out[0]["twin"] = True
    return out


def _post(lat, s, e, outcome, path):
    """obligations for one finished path of the solver"""
    obs = []
    rc = lat.r * lat.c
    if outcome == "raised":
        obs.append(("complete: ValueError only when end unreachable", z3.Not(lat.reach_within(s, e, rc))))
        return obs
    obs.append(("endpoints", z3.BoolVal(len(path) >= 1 and path[0] == s and path[-1] == e)))
    steps = []
    for a, b in zip(path, path[1:]):
        k = lat.edge_between(a, b)
        steps.append(lat.bit[k] if k is not None else z3.BoolVal(False))
    obs.append(("sound: every step follows a connection", z3.And(*steps) if steps else z3.BoolVal(True)))
    L = len(path) - 1
    if L > 0:
        obs.append(("optimal: no strictly shorter walk in any completion", z3.Not(lat.reach_within(s, e, L - 1))))
    if s == e:
        obs.append(("self query returns the one-cell path", z3.BoolVal(path == [s])))
    return obs


def _meta_cells(job):
    return [tuple(x) for x in job["meta_component"]]


def _meta_for(job, lat, ctx):
    """accurate generation metadata as the percolation generators attach it: `visited_cells` = the connected component of `start_coord`.
    The instance assumes that this component is exactly the given cell set (its listed spanning connections set, every connection
    leaving it clear); all other connection bits stay symbolic.  The solver's answers must depend on the connection structure only."""
    if not job.get("meta_component"):
        return None
    V = _meta_cells(job)
    for k in lat.edge_idx:
        a, b = lat.ends(k)
        if (a in V) != (b in V):
            ctx.solver.add(z3.Not(lat.bit[k]))
    for a, b in zip(V, V[1:]):  # V is listed as a chain of adjacent cells
        ctx.solver.add(lat.bit[lat.edge_between(a, b)])
    return dict(func_name="gen_percolation", grid_shape=np.array([lat.r, lat.c]), start_coord=np.array(V[0]), fully_connected=False,
                visited_cells={tuple(v) for v in V}, n_accessible_cells=lat.r * lat.c, max_tree_depth=2 * lat.r * lat.c, p=0.5)


def _real_meta(job, cl):
    if not job.get("meta_component"):
        return None
    V = _meta_cells(job)
    return dict(func_name="gen_percolation", grid_shape=np.array(cl.shape[1:]), start_coord=np.array(V[0]), fully_connected=False,
                visited_cells={tuple(v) for v in V}, n_accessible_cells=int(cl.shape[1] * cl.shape[2]), max_tree_depth=2 * int(cl.shape[1] * cl.shape[2]), p=0.5)


def _run_astar(job):
    from maze_dataset.maze.lattice_maze import LatticeMaze

    r, c, s, e = job["r"], job["c"], tuple(job["s"]), tuple(job["e"])

    def run(ctx, pinned=None):
        cl, lat = sym_connection_list(r, c)
        if pinned:
            pin(pinned)
        if job.get("fix"):
            pin(job["fix"])  # this instance covers the mazes with these bits; sibling instances cover the other values
        m = LatticeMaze(connection_list=cl, generation_meta=_meta_for(job, lat, ctx))
        try:
            p = m.find_shortest_path(s, e)
        except ValueError:
            ctx.notes["sig"] = "ValueError"
            return _post(lat, s, e, "raised", None)
        path = py_path(p)
        ctx.notes["sig"] = [list(x) for x in path]
        obs = _post(lat, s, e, "returned", path)
        # answers must not depend on earlier queries: another maze of another shape is solved in between, then the same query again
        other = LatticeMaze(connection_list=_OTHER)
        other.find_shortest_path((0, 0), (1, 2))
        again = py_path(LatticeMaze(connection_list=cl).find_shortest_path(s, e))
        obs.append(("the same query after solving a different maze returns the same path", z3.BoolVal(again == path)))
        return obs

    return run


def _run_astar_seq(job):
    """several queries on the SAME maze object: answers must not depend on what was asked before"""
    from maze_dataset.maze.lattice_maze import LatticeMaze

    r, c = job["r"], job["c"]
    qs = [(tuple(a), tuple(b)) for a, b in job["queries"]]

    def run(ctx, pinned=None):
        cl, lat = sym_connection_list(r, c)
        if pinned:
            pin(pinned)
        m = LatticeMaze(connection_list=cl)
        obs, sig = [], []
        for k, (s, e) in enumerate(qs):
            try:
                p = m.find_shortest_path(s, e)
            except ValueError:
                sig.append("ValueError")
                obs += [(f"query {k + 1} on the same object: {n}", o) for n, o in _post(lat, s, e, "raised", None)]
                continue
            path = py_path(p)
            sig.append([list(x) for x in path])
            obs += [(f"query {k + 1} on the same object: {n}", o) for n, o in _post(lat, s, e, "returned", path)]
        ctx.notes["sig"] = sig
        return obs

    return run


_OTHER = np.array([[[1, 0, 1], [0, 0, 0]], [[1, 1, 0], [0, 1, 0]]], dtype=bool)  # a 2x3 tree


def _run_solve_targeted(job):
    from maze_dataset.maze.lattice_maze import SolvedMaze, TargetedLatticeMaze

    r, c, s, e = job["r"], job["c"], tuple(job["s"]), tuple(job["e"])

    def run(ctx, pinned=None):
        cl, lat = sym_connection_list(r, c)
        if pinned:
            pin(pinned)
        t = TargetedLatticeMaze(connection_list=cl, start_pos=np.array(s), end_pos=np.array(e))
        try:
            sm = SolvedMaze.from_targeted_lattice_maze(t)
        except ValueError:
            ctx.notes["sig"] = "ValueError"
            return _post(lat, s, e, "raised", None)
        path = py_path(sm.solution)
        ctx.notes["sig"] = [list(x) for x in path]
        obs = _post(lat, s, e, "returned", path)
        obs.append(("solved maze endpoints match request",
                    z3.BoolVal(tuple(int(x) for x in sm.start_pos) == s and tuple(int(x) for x in sm.end_pos) == e)))
        return obs

    return run


# ---------------------------------------------------------------------------- real-code side
def _bfs_dist(cl, s, e):
    r, c = cl.shape[1:]
    from collections import deque

    dist = {s: 0}
    q = deque([s])
    while q:
        u = q.popleft()
        i, j = u
        nb = []
        if i + 1 < r and cl[0, i, j]:
            nb.append((i + 1, j))
        if j + 1 < c and cl[1, i, j]:
            nb.append((i, j + 1))
        if i > 0 and cl[0, i - 1, j]:
            nb.append((i - 1, j))
        if j > 0 and cl[1, i, j - 1]:
            nb.append((i, j - 1))
        for v in nb:
            if v not in dist:
                dist[v] = dist[u] + 1
                q.append(v)
    return dist.get(e)


def _real_outcome(job, inputs):
    from maze_dataset.maze.lattice_maze import LatticeMaze, SolvedMaze, TargetedLatticeMaze

    r, c, s, e = job["r"], job["c"], tuple(job["s"]), tuple(job["e"])
    cl = conn_from_cex(inputs, r, c)
    try:
        if job["h"] == "astar":
            p = LatticeMaze(connection_list=cl, generation_meta=_real_meta(job, cl)).find_shortest_path(s, e)
        else:
            p = SolvedMaze.from_targeted_lattice_maze(
                TargetedLatticeMaze(connection_list=cl, start_pos=np.array(s), end_pos=np.array(e))).solution
    except ValueError:
        return cl, "ValueError"
    return cl, [[int(x) for x in row] for row in p]


def _replay(job, inputs, notes):
    s, e = tuple(job["s"]), tuple(job["e"])
    cl, out = _real_outcome(job, inputs)
    d = _bfs_dist(cl, s, e)
    if out == "ValueError":
        if d is not None:
            return f"solver-raises-on-connected | ValueError although {e} is reachable from {s} in {d} steps; connection_list={cl.astype(int).tolist()}"
        return None
    path = [tuple(x) for x in out]
    if not path or path[0] != s or path[-1] != e:
        return f"solver-wrong-endpoints | path {path} for query {s}->{e}; connection_list={cl.astype(int).tolist()}"
    for a, b in zip(path, path[1:]):
        if _bfs_dist(cl, a, b) != 1:
            return f"solver-walks-through-wall | step {a}->{b} in {path}; connection_list={cl.astype(int).tolist()}"
    if d is None or len(path) - 1 != d:
        return f"solver-not-shortest | returned {len(path) - 1} steps, shortest is {d}; path={path}; connection_list={cl.astype(int).tolist()}"
    if job["h"] == "astar":
        from maze_dataset.maze.lattice_maze import LatticeMaze

        LatticeMaze(connection_list=_OTHER).find_shortest_path((0, 0), (1, 2))
        again = [tuple(int(x) for x in p) for p in LatticeMaze(connection_list=cl).find_shortest_path(s, e)]
        if again != path:
            return f"solver-depends-on-history | the same query returns {again} after another maze was solved, {path} before; connection_list={cl.astype(int).tolist()}"
    return None


def _real_sig(job, inputs):
    return _real_outcome(job, inputs)[1]


def _seq_outcomes(job, inputs):
    from maze_dataset.maze.lattice_maze import LatticeMaze

    cl = conn_from_cex(inputs, job["r"], job["c"])
    m = LatticeMaze(connection_list=cl)
    outs = []
    for a, b in job["queries"]:
        try:
            outs.append([[int(x) for x in row] for row in m.find_shortest_path(tuple(a), tuple(b))])
        except ValueError:
            outs.append("ValueError")
    return cl, outs


def _replay_seq(job, inputs, notes):
    cl, outs = _seq_outcomes(job, inputs)
    for k, ((a, b), out) in enumerate(zip(job["queries"], outs)):
        s, e = tuple(a), tuple(b)
        d = _bfs_dist(cl, s, e)
        hist = f"query {k + 1} of {job['queries']} on one maze object"
        if out == "ValueError":
            if d is not None:
                return f"solver-raises-on-connected | {hist}: ValueError although {e} is reachable from {s}; connection_list={cl.astype(int).tolist()}"
            continue
        path = [tuple(x) for x in out]
        if not path or path[0] != s or path[-1] != e:
            return f"solver-wrong-endpoints | {hist}: path {path} for {s}->{e}; connection_list={cl.astype(int).tolist()}"
        if any(_bfs_dist(cl, x, y) != 1 for x, y in zip(path, path[1:])):
            return f"solver-walks-through-wall | {hist}: {path}; connection_list={cl.astype(int).tolist()}"
        if d is None or len(path) - 1 != d:
            return f"solver-not-shortest | {hist}: returned {len(path) - 1} steps for {s}->{e}, shortest is {d}; connection_list={cl.astype(int).tolist()}"
    return None


def _real_sig_seq(job, inputs):
    return _seq_outcomes(job, inputs)[1]


def _pinned(job, seed):
    """concrete mazes for translator validation: the repository's own test mazes where the shape
    matches, plus seeded random ones"""
    r, c = job["r"], job["c"]
    rng = np.random.default_rng(seed * 7919 + r * 31 + c)
    out = []
    for _ in range(2):
        bits = rng.random((2, r, c)) < 0.6
        out.append({f"c_{d}_{i}_{j}": bool(bits[d, i, j]) and ((i + 1 < r) if d == 0 else (j + 1 < c))
                    for d in range(2) for i in range(r) for j in range(c)})
    return out


HARNESSES = {
    "astar": dict(run=_run_astar, replay=_replay, real_sig=_real_sig, pinned=_pinned),
    "solve_targeted": dict(run=_run_solve_targeted, replay=_replay, real_sig=_real_sig, pinned=_pinned),
    "astar_seq": dict(run=_run_astar_seq, replay=_replay_seq, real_sig=_real_sig_seq, pinned=_pinned),
}
HARNESSES["alias"] = _alias.alias_harness("C02")

META = dict(
    functions=["LatticeMaze.find_shortest_path", "LatticeMaze.get_coord_neighbors", "LatticeMaze.nodes_connected",
               "LatticeMaze.heuristic", "SolvedMaze.from_targeted_lattice_maze", "TargetedLatticeMaze.__post_init__",
               "SolvedMaze.__init__"],
    bounds=dict(
        quick="all connection structures (every bit symbolic) on all grids r x c with r*c <= 6 and all ordered (start,end) pairs; 3x3 with 12 pairs; larger grids around seeded dense base mazes with 4 symbolic bits and 6 endpoint pairs each (4x3: 3 bases, 4x4: 5, 5x5: 8, 3x5: 2, 6x6: 4, 2x8: 5, 2x11: 3, 3x9: 3, 9x2: 2); "
              "mazes carrying accurate generation metadata (a recorded component of 1-3 cells, queries among the other cells; all other bits symbolic); histories of queries on one maze object (two from the same start; on 2x3 also the reverse and a repeat) on 2x3, 2x4 and 3x3 (18 seeded histories)",
        thorough="as quick (query histories: 40 on 3x3, 28 on 2x3 / 2x4), plus 3x3 all 81 pairs, 3x4 and 4x3 exhaustively for 4 pairs each (16 instances per pair), seeded dense bases up to 8x8 and 2x9, 2x8 (all 2^22 mazes) for the pair (0,7)->(1,0), solve_targeted on 3x3 all pairs",
    ),
    degenerate={},
    stubs=stubs_description(),
    outside=["grids larger than the bound", "non-boolean / malformed connection arrays"],
    assumptions=["representation invariant on the input maze (boundary entries False)",
                 "oracle: BFS-layer reachability formula over the same bits (symx/oracles.py)",
                 "shim element semantics (validated per run against real numpy on pinned inputs)"],
)

META.setdefault("degenerate", {})["alias"] = _alias.ALIAS_META
