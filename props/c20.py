"""C20 - maze plots draw the maze that was given (the data handed to matplotlib)."""

from __future__ import annotations

import math

import numpy as np
import z3

from props.c10 import _sym_path
from symx.core import Inconclusive, SBool, SInt, SReal, cur, fresh_int, fresh_real, is_sym, zb, zi, zn
from symx.harness import SNP, conn_from_cex, stubs_description, sym_connection_list
from symx.snp import SArr, make_module

from props import alias_common as _alias

ID = "C20"
NAN_SENTINEL = -987654321.25  # stands for np.nan inside the symbolic run (node values are constrained to differ from it)


class _Spine:
    def set_linewidth(self, *a, **k):
        pass


class FakeAx:
    """recording stand-in for a matplotlib Axes: the check sees exactly the data given to imshow / plot / quiver"""

    def __init__(self):
        self.images, self.plots, self.quivers = [], [], []
        self.spines = {k: _Spine() for k in ("top", "bottom", "left", "right")}

    def imshow(self, img, **kw):
        self.images.append((img, kw))
        return object()

    def plot(self, x, y, *a, **kw):
        self.plots.append((x, y, a, kw))

    def quiver(self, x, y, u, v, **kw):
        self.quivers.append((x, y, u, v, kw))

    def __getattr__(self, name):
        return lambda *a, **k: None


def _val(x):
    if isinstance(x, np.generic):
        return x.item()
    return x


def _eq_num(x, expected):
    """z3 bool: element x (python number or symbolic) equals the expected term / number"""
    x = _val(x)
    if type(x) is float and math.isnan(x):
        return z3.BoolVal(False)
    return zn(x) == (expected if isinstance(expected, z3.ExprRef) else zn(expected))


def _seq(a):
    if isinstance(a, SArr):
        return [_val(v) for v in a.o.ravel()]
    return [_val(v) for v in np.asarray(a, dtype=object).ravel()]


# ----------------------------------------------------------------------------------------- image
def _run_image(job):
    r, c, ul, with_values = job["r"], job["c"], job["ul"], job["values"]

    def run(ctx, pinned=None):
        import maze_dataset.plotting.plot_maze as pm
        from maze_dataset.maze.lattice_maze import LatticeMaze

        cl, lat = sym_connection_list(r, c)
        m = LatticeMaze(connection_list=cl)
        mp = pm.MazePlot(m, unit_length=ul)
        vals = None
        if with_values:
            nv = SNP.zeros((r, c), dtype=float)
            vals = {}
            for i in range(r):
                for j in range(c):
                    v = fresh_real(f"v_{i}_{j}")
                    ctx.solver.add(ctx.inputs[f"v_{i}_{j}"] != z3.RealVal(repr(NAN_SENTINEL)))
                    nv.o[i, j] = v
                    vals[(i, j)] = ctx.inputs[f"v_{i}_{j}"]
            if job.get("history"):
                # the same plot object was drawn before with other cell values: the new drawing must show the new ones
                mp.add_node_values(np.arange(r * c, dtype=float).reshape(r, c) * 0.25 + 0.125, hide_colorbar=True)
                mp.plot(fig_ax=(None, FakeAx()))
            mp.add_node_values(nv, hide_colorbar=True)
        elif job.get("history"):
            mp.plot(fig_ax=(None, FakeAx()))
        ax = FakeAx()
        mp.plot(fig_ax=(None, ax))
        obs = [("exactly one image handed to imshow", z3.BoolVal(len(ax.images) == 1))]
        if len(ax.images) != 1:
            return obs
        img = ax.images[0][0]
        H, W = r * ul + 1, c * ul + 1
        obs.append(("image is (rows*ul+1) x (cols*ul+1)", z3.BoolVal(tuple(img.shape) == (H, W))))
        if tuple(img.shape) != (H, W):
            return obs
        get = (lambda y, x: _val(img.o[y, x])) if isinstance(img, SArr) else (lambda y, x: _val(img[y, x]))
        cells, strips = [], []
        for i in range(r):
            for j in range(c):
                expect = vals[(i, j)] if with_values else z3.RealVal(1)
                for y in range(i * ul + 1, (i + 1) * ul):
                    for x in range(j * ul + 1, (j + 1) * ul):
                        cells.append(_eq_num(get(y, x), expect))
                for (d, ys, xs) in ((0, [(i + 1) * ul], range(j * ul + 1, (j + 1) * ul)), (1, range(i * ul + 1, (i + 1) * ul), [(j + 1) * ul])):
                    bit = lat.bit[(d, i, j)]  # boundary entries are False by the representation invariant: always wall
                    for y in ys:
                        for x in xs:
                            px = get(y, x)
                            if with_values:
                                is_wall = _eq_num(px, z3.RealVal(repr(NAN_SENTINEL)))
                                strips.append(z3.If(bit, z3.And(z3.Not(is_wall), _eq_num(px, expect)), is_wall))
                            else:
                                strips.append(z3.If(bit, _eq_num(px, z3.RealVal("0.93")), _eq_num(px, z3.RealVal(-1))))
        obs.append(("every cell block carries 1 (or the supplied cell value)", z3.And(*cells)))
        obs.append(("every separator strip is passage exactly when the two cells are connected, wall otherwise", z3.And(*strips)))
        return obs

    return run


def _replay_image(job, inputs, notes):
    import maze_dataset.plotting.plot_maze as pm
    from maze_dataset.maze.lattice_maze import LatticeMaze

    r, c, ul, with_values = job["r"], job["c"], job["ul"], job["values"]
    cl = conn_from_cex(inputs, r, c)
    mp = pm.MazePlot(LatticeMaze(connection_list=cl), unit_length=ul)
    nv = None
    if with_values:
        def f(v):
            return float(v[0]) / float(v[1]) if isinstance(v, (list, tuple)) else float(v)

        nv = np.array([[f(inputs.get(f"v_{i}_{j}", 0)) for j in range(c)] for i in range(r)], dtype=float)
        if job.get("history"):
            mp.add_node_values(np.arange(r * c, dtype=float).reshape(r, c) * 0.25 + 0.125, hide_colorbar=True)
            mp.plot(fig_ax=(None, FakeAx()))
        mp.add_node_values(nv, hide_colorbar=True)
    elif job.get("history"):
        mp.plot(fig_ax=(None, FakeAx()))
    ax = FakeAx()
    mp.plot(fig_ax=(None, ax))
    if len(ax.images) != 1:
        return f"plot-no-image | {len(ax.images)} images"
    img = np.asarray(ax.images[0][0], dtype=float)
    tag = ("second drawing of the same plot object" + (" after its cell values were replaced; " if with_values else "; ") if job.get("history") else "") + f"{r}x{c} unit_length={ul} values={'yes' if with_values else 'no'} connection_list={cl.astype(int).tolist()}" + (f" node_values={nv.tolist()}" if with_values else "")
    if img.shape != (r * ul + 1, c * ul + 1):
        return f"plot-image-shape | {img.shape}; {tag}"
    for i in range(r):
        for j in range(c):
            blk = img[i * ul + 1:(i + 1) * ul, j * ul + 1:(j + 1) * ul]
            want = nv[i, j] if with_values else 1.0
            if not np.all(blk == want):
                return f"plot-cell-block | cell ({i},{j}) block is {np.unique(blk).tolist()} expected {want}; {tag}"
            for d, strip in ((0, img[(i + 1) * ul, j * ul + 1:(j + 1) * ul]), (1, img[i * ul + 1:(i + 1) * ul, (j + 1) * ul])):
                conn = bool(cl[d, i, j])
                if with_values:
                    ok = np.all(strip == want) if conn else np.all(np.isnan(strip))
                else:
                    ok = np.all(strip == 0.93) if conn else np.all(strip == -1)
                if not ok:
                    return f"plot-strip | strip {'below' if d == 0 else 'right of'} cell ({i},{j}) is {np.unique(strip).tolist()} but connected={conn}; {tag}"
    return None


# ----------------------------------------------------------------------------------------- paths
def _run_paths(job):
    r, c, ul, L, which = job["r"], job["c"], job["ul"], job["L"], job["which"]

    def run(ctx, pinned=None):
        import maze_dataset.plotting.plot_maze as pm
        from maze_dataset.maze.lattice_maze import LatticeMaze

        cl = np.zeros((2, r, c), dtype=bool)
        cells = [(fresh_int(f"p{k}i", 0, r - 1), fresh_int(f"p{k}j", 0, c - 1)) for k in range(L)]
        pv = [(ctx.inputs[f"p{k}i"], ctx.inputs[f"p{k}j"]) for k in range(L)]
        path = SNP.array([[i, j] for i, j in cells]) if job["as_array"] else [(i, j) for i, j in cells]
        if job.get("dtype"):
            path = path.astype(getattr(np, job["dtype"]))  # e.g. int8, the dtype of solutions loaded from the minimal formats
        mp = pm.MazePlot(LatticeMaze(connection_list=cl), unit_length=ul)
        if which == "true":
            mp.add_true_path(path)
        else:
            mp.add_predicted_path(path)
        ax = FakeAx()
        mp.plot(fig_ax=(None, ax))
        ex = [z3.ToReal(j) * ul + z3.RealVal(ul) / 2 for i, j in pv]  # x = ul*(col+0.5)
        ey = [z3.ToReal(i) * ul + z3.RealVal(ul) / 2 for i, j in pv]  # y = ul*(row+0.5)
        obs = []
        if which == "true":
            lines = [p for p in ax.plots if len(_seq(p[0])) == L and not (p[2] and p[2][0] in ("o", "x"))]
            obs.append(("one line drawn for the true path", z3.BoolVal(len(lines) == 1)))
            if len(lines) == 1:
                xs, ys = _seq(lines[0][0]), _seq(lines[0][1])
                obs.append(("line passes through the centres of exactly the listed cells, in order (x from column, y from row)",
                            z3.And(*[_eq_num(a, b) for a, b in zip(xs, ex)], *[_eq_num(a, b) for a, b in zip(ys, ey)])))
        else:
            obs.append(("one arrow sequence drawn for the predicted path", z3.BoolVal(len(ax.quivers) == 1)))
            if len(ax.quivers) == 1:
                x, y, u, v, kw = ax.quivers[0]
                xs, ys, us, vs = _seq(x), _seq(y), _seq(u), _seq(v)
                obs.append(("one arrow per step", z3.BoolVal(len(xs) == L - 1 and len(us) == L - 1)))
                if len(xs) == L - 1 and len(us) == L - 1:
                    conds = []
                    for k in range(L - 1):
                        conds += [_eq_num(xs[k], ex[k]), _eq_num(ys[k], ey[k]), _eq_num(us[k], ex[k + 1] - ex[k]), _eq_num(vs[k], ey[k + 1] - ey[k])]
                    obs.append(("arrows run from each listed cell centre to the next", z3.And(*conds) if conds else z3.BoolVal(True)))
        marks = [p for p in ax.plots if p[2] and p[2][0] in ("o", "x") and len(_seq(p[0])) == 1]
        o_m = [p for p in marks if p[2][0] == "o"]
        x_m = [p for p in marks if p[2][0] == "x"]
        obs.append(("start and end markers drawn once each", z3.BoolVal(len(o_m) == 1 and len(x_m) == 1)))
        if len(o_m) == 1 and len(x_m) == 1:
            obs.append(("start marker on the first cell, end marker on the last cell",
                        z3.And(_eq_num(_seq(o_m[0][0])[0], ex[0]), _eq_num(_seq(o_m[0][1])[0], ey[0]),
                               _eq_num(_seq(x_m[0][0])[0], ex[-1]), _eq_num(_seq(x_m[0][1])[0], ey[-1]))))
        return obs

    return run


def _replay_paths(job, inputs, notes):
    import maze_dataset.plotting.plot_maze as pm
    from maze_dataset.maze.lattice_maze import LatticeMaze

    r, c, ul, L, which = job["r"], job["c"], job["ul"], job["L"], job["which"]
    cells = [(inputs.get(f"p{k}i", 0), inputs.get(f"p{k}j", 0)) for k in range(L)]
    path = np.array(cells, dtype=getattr(np, job["dtype"]) if job.get("dtype") else None) if job["as_array"] else list(cells)
    mp = pm.MazePlot(LatticeMaze(connection_list=np.zeros((2, r, c), dtype=bool)), unit_length=ul)
    (mp.add_true_path if which == "true" else mp.add_predicted_path)(path)
    ax = FakeAx()
    mp.plot(fig_ax=(None, ax))
    ex = [ul * (j + 0.5) for i, j in cells]
    ey = [ul * (i + 0.5) for i, j in cells]
    tag = f"{which} path {cells} (as {(job.get('dtype') or '') + ' array' if job['as_array'] else 'list'}) unit_length={ul}"
    if which == "true":
        lines = [p for p in ax.plots if len(np.ravel(p[0])) == L and not (p[2] and p[2][0] in ("o", "x"))]
        if len(lines) != 1 or list(np.ravel(lines[0][0])) != ex or list(np.ravel(lines[0][1])) != ey:
            return f"plot-path-line | {tag}: line data {[list(np.ravel(p[0])) for p in lines]} / {[list(np.ravel(p[1])) for p in lines]} expected x={ex} y={ey}"
    else:
        if len(ax.quivers) != 1:
            return f"plot-path-arrows | {tag}: {len(ax.quivers)} quiver calls"
        x, y, u, v, kw = ax.quivers[0]
        if list(np.ravel(x)) != ex[:-1] or list(np.ravel(y)) != ey[:-1] or list(np.ravel(u)) != [b - a for a, b in zip(ex, ex[1:])] or list(np.ravel(v)) != [b - a for a, b in zip(ey, ey[1:])]:
            return f"plot-path-arrows | {tag}: arrows start x={list(np.ravel(x))} y={list(np.ravel(y))}"
    o_m = [p for p in ax.plots if p[2] and p[2][0] == "o" and len(np.ravel(p[0])) == 1]
    x_m = [p for p in ax.plots if p[2] and p[2][0] == "x" and len(np.ravel(p[0])) == 1]
    if len(o_m) != 1 or len(x_m) != 1 or (float(np.ravel(o_m[0][0])[0]), float(np.ravel(o_m[0][1])[0])) != (ex[0], ey[0]) or \
            (float(np.ravel(x_m[0][0])[0]), float(np.ravel(x_m[0][1])[0])) != (ex[-1], ey[-1]):
        return f"plot-path-markers | {tag}"
    return None


# ----------------------------------------------------------------------------- constructor / ascii
def _run_ascii(job):
    kind, r, c = job["kind"], job["r"], job["c"]

    def run(ctx, pinned=None):
        import maze_dataset.plotting.plot_maze as pm
        from maze_dataset.maze.lattice_maze import LatticeMaze, SolvedMaze, TargetedLatticeMaze

        cl, lat = sym_connection_list(r, c)
        bits = np.zeros((2, r, c), dtype=bool)
        sol = None
        if kind != "LatticeMaze":
            sol = _sym_path(ctx, lat, tuple(job["s"]), job["L"])
            ctx.notes["sol"] = [list(p) for p in sol]
            ctx.solver.add(z3.Not(lat.reach_within(sol[0], sol[-1], len(sol) - 2)) if len(sol) > 1 else z3.BoolVal(True))
        for k in lat.edge_idx:
            bits[k] = bool(SBool(lat.bit[k]))
        if kind == "LatticeMaze":
            m = LatticeMaze(connection_list=bits)
        elif kind == "SolvedMaze":
            m = SolvedMaze(connection_list=bits, solution=np.array(sol))
        else:
            m = TargetedLatticeMaze(connection_list=bits, start_pos=np.array(sol[0]), end_pos=np.array(sol[-1]))
        mp = pm.MazePlot(m)
        obs = []
        if kind == "LatticeMaze":
            obs.append(("no true path for an untargeted maze", z3.BoolVal(mp.true_path is None)))
            obs.append(("ASCII export equals the maze's own ASCII drawing", z3.BoolVal(mp.to_ascii() == m.as_ascii())))
        elif kind == "SolvedMaze":
            tp = [tuple(int(x) for x in p) for p in mp.true_path.path]
            obs.append(("true path is the maze's solution", z3.BoolVal(tp == sol)))
            obs.append(("ASCII export equals the maze's own ASCII drawing", z3.BoolVal(mp.to_ascii() == m.as_ascii())))
        else:
            tp = [tuple(int(x) for x in p) for p in mp.true_path.path]
            okp = tp[0] == sol[0] and tp[-1] == sol[-1] and len(tp) == len(sol)
            obs.append(("true path added for a targeted maze is a shortest route between its endpoints", z3.BoolVal(okp)))
            # weaker reading (DESIGN.md section 6): the export equals the ASCII drawing of the maze the plot displays
            shown = SolvedMaze(connection_list=bits, solution=np.array(tp))
            obs.append(("ASCII export equals the ASCII drawing of the displayed maze", z3.BoolVal(mp.to_ascii() == shown.as_ascii())))
        return obs

    return run


def _replay_ascii(job, inputs, notes):
    import maze_dataset.plotting.plot_maze as pm
    from maze_dataset.maze.lattice_maze import LatticeMaze, SolvedMaze, TargetedLatticeMaze
    from symx import concrete as C

    kind, r, c = job["kind"], job["r"], job["c"]
    cl = conn_from_cex(inputs, r, c)
    sol = [tuple(p) for p in notes.get("sol", [])]
    tag = f"{kind} {r}x{c} solution={sol} connection_list={cl.astype(int).tolist()}"
    if kind == "LatticeMaze":
        m = LatticeMaze(connection_list=cl)
        mp = pm.MazePlot(m)
        return None if mp.true_path is None and mp.to_ascii() == m.as_ascii() else f"plot-ascii-differs | {tag}"
    if len(sol) > 1 and C.dist(cl, sol[0], sol[-1]) != len(sol) - 1:
        return None
    if kind == "SolvedMaze":
        m = SolvedMaze(connection_list=cl, solution=np.array(sol))
        mp = pm.MazePlot(m)
        if [tuple(int(x) for x in p) for p in mp.true_path.path] != sol:
            return f"plot-true-path | {tag}: true path {np.asarray(mp.true_path.path).tolist()}"
        return None if mp.to_ascii() == m.as_ascii() else f"plot-ascii-differs | {tag}"
    m = TargetedLatticeMaze(connection_list=cl, start_pos=np.array(sol[0]), end_pos=np.array(sol[-1]))
    mp = pm.MazePlot(m)
    tp = [tuple(int(x) for x in p) for p in mp.true_path.path]
    if tp[0] != sol[0] or tp[-1] != sol[-1] or C.check_solution(cl, tp):
        return f"plot-true-path | {tag}: true path {tp}"
    return None if mp.to_ascii() == SolvedMaze(connection_list=cl, solution=np.array(tp)).as_ascii() else f"plot-ascii-differs | {tag}"


# ------------------------------------------------------------------------------------------ jobs
def jobs(tier, seed):
    q = tier == "quick"
    out = []
    for r, c in ([(1, 1), (2, 2), (2, 3), (3, 3)] if q else [(1, 1), (1, 3), (2, 2), (2, 3), (3, 2), (3, 3), (4, 4)]):
        for ul in (3, 4, 5, 14):
            if ul == 14 and r * c > 4 and q:
                continue
            for values in (False, True):
                out.append(dict(h="image", r=r, c=c, ul=ul, values=values, max_seconds=3300))
    out.append(dict(h="image", r=5, c=5, ul=3, values=False, max_seconds=3300))
    for r, c, ul in ([(2, 2, 3), (2, 3, 4)] if q else [(2, 2, 3), (2, 3, 4), (3, 2, 5), (3, 3, 3)]):
        for values in (False, True):
            out.append(dict(h="image", r=r, c=c, ul=ul, values=values, history="replot", max_seconds=3300))
    out.append(dict(h="image", r=4 if q else 8, c=4 if q else 8, ul=3, values=True, max_seconds=3300))
    for which in ("true", "predicted"):
        for L in ((1, 2, 3) if q else (1, 2, 3, 4)):
            if which == "predicted" and L == 1:
                continue
            for as_array in (True, False):
                for r, c, ul in ([(2, 2, 3), (3, 4, 14)] if q else [(2, 2, 3), (3, 4, 14), (5, 2, 4), (8, 8, 5)]):
                    out.append(dict(h="paths", r=r, c=c, ul=ul, L=L, which=which, as_array=as_array))
        # narrow integer paths (int8 is what the minimal serialization formats load) with large unit lengths: unit_length * index > 127
        for r, c, ul in ([(8, 8, 19), (2, 3, 100)] if q else [(8, 8, 19), (8, 8, 31), (2, 3, 100), (6, 7, 22), (8, 3, 14)]):
            out.append(dict(h="paths", r=r, c=c, ul=ul, L=2, which=which, as_array=True, dtype="int8"))
    for r, c in [(2, 2), (2, 3)] if q else [(2, 2), (2, 3), (3, 2)]:
        out.append(dict(h="ascii", kind="LatticeMaze", r=r, c=c))
        for kind in ("SolvedMaze", "TargetedLatticeMaze"):
            for s in ([(0, 0), (r - 1, c - 1)] if q else [(i, j) for i in range(r) for j in range(c)]):
                for L in ((1, 2, 3) if kind == "SolvedMaze" else (2, 3)):
                    out.append(dict(h="ascii", kind=kind, r=r, c=c, s=list(s), L=L))
    out.append(dict(_alias.ALIAS_JOB))  # results must not alias library state, arguments or each other (props/alias_common.py)
    out[0]["twin"] = True
    return out


def _PATCH():
    import maze_dataset.plotting.plot_maze as pm
    from symx.merge import merged

    mod = make_module(nan=NAN_SENTINEL)
    extra = {"maze_dataset.plotting.plot_maze": {"np": mod}}
    new, n = merged(pm.MazePlot._lattice_maze_to_img)
    if n:
        extra[("maze_dataset.plotting.plot_maze", "MazePlot")] = {"_lattice_maze_to_img": new}
    return dict(np_modules=["maze_dataset.maze.lattice_maze"], stub_ascii=False, extra=extra)


HARNESSES = {
    "image": dict(run=_run_image, replay=_replay_image, patch=_PATCH),
    "paths": dict(run=_run_paths, replay=_replay_paths, patch=_PATCH),
    "ascii": dict(run=_run_ascii, replay=_replay_ascii, patch=dict(np_modules=[], stub_ascii=False)),
}
HARNESSES["alias"] = _alias.alias_harness("C20")

META = dict(
    functions=["MazePlot.__init__", "add_true_path", "add_predicted_path", "add_node_values", "plot (fig_ax supplied)", "_plot_maze", "_lattice_maze_to_img",
               "_rowcol_to_coord", "_plot_path", "process_path_input", "to_ascii", "solved_maze"],
    bounds=dict(
        quick="image: all connection bits symbolic and (when supplied) every cell value an arbitrary real, grids up to 3x3 (+5x5 without and 4x4 with values at "
              "unit_length 3), unit_length in {3,4,5,14}: one path per configuration; paths: true (line) and predicted (arrows) paths of 1..3 symbolic (plus int8 cell arrays with unit lengths 19 and 100, where unit_length*index exceeds 127) "
              "in-grid cells given as list and as array; ASCII export for all three kinds on 2x2 and 2x3 (all bits, solutions of 1..3 cells)",
        thorough="grids up to 4x4 (8x8 with values at unit_length 3), paths of 4 cells on grids up to 8x8, ASCII on 3x2 from every start cell",
    ),
    degenerate=dict(ascii="all inputs forked (concrete strings)"),
    stubs=stubs_description(np_modules=["maze_dataset.maze.lattice_maze", "maze_dataset.plotting.plot_maze"], stub_ascii=False) + [
        "the Axes object -> recording stand-in (imshow / plot / quiver arguments are what is checked)",
        "np.nan in plot_maze.py -> a sentinel real that every supplied cell value is assumed to differ from",
        "MazePlot._lattice_maze_to_img -> state-merged version rebuilt from its current source (`if not conn: img[...] = v` becomes an ite)"],
    outside=["what matplotlib renders from the data", "colour bars, colormaps, marked coordinates", "unit lengths other than 3, 4, 5, 14",
             "for a targeted maze the ASCII export is compared with the drawing of the maze the plot displays (it includes the automatically added true path); "
             "the stricter reading 'equals targeted.as_ascii()' is not checked (DESIGN.md section 6)"],
    assumptions=["representation invariant on input mazes", "cell values are finite reals (NaN values are rejected by the code itself)"],
)

META.setdefault("degenerate", {})["alias"] = _alias.ALIAS_META
