"""C04 - serial dataset generation is a pure function of the configuration.

The *initial state* of the global RNGs (python `random`, numpy's global RNG, torch's RNG, the module-level
`numpy_rng` Generator) is the symbolic input: each RNG is modelled as either Seeded(s) - then draws are the
real library's values for that seed, bit-exact - or Unseeded - its state is an arbitrary function of the prior
history.  `seed()` (reached through the real set_reproducibility) switches to Seeded.  A draw from an Unseeded
RNG is a value the prior history controls, i.e. a fork with more than one feasible value: the output is then
not a function of the configuration.  The obligation is that no such draw happens; counterexamples are
confirmed on the real code by generating after two different RNG pre-histories.
"""

from __future__ import annotations

import copy
import json
import random as _pyrandom
import types

import numpy as np
import z3

from symx.core import Inconclusive, is_sym

from props import alias_common as _alias

ID = "C04"
GENS = ["gen_dfs", "gen_wilson", "gen_percolation", "gen_dfs_percolation", "gen_prim"]


class HistoryDependentDraw(Exception):
    pass


class _Model:
    """shared log of the model RNGs"""

    def __init__(self):
        self.unseeded = []
        self.seeds = []

    def draw(self, rng, what):
        self.unseeded.append(f"{rng}.{what}")
        raise HistoryDependentDraw(f"{rng}.{what} drawn while the state of {rng} still depends on the prior history")


class PyRandomModel:
    def __init__(self, m):
        self._m, self._g = m, None

    def seed(self, s=None, *a):
        if s is None or is_sym(s):
            self._g = None
        else:
            self._g = _pyrandom.Random(s)
            self._m.seeds.append(("random", int(s)))

    def __getattr__(self, name):
        if name.startswith("_"):
            raise AttributeError(name)
        if self._g is None:
            return lambda *a, **k: self._m.draw("random", name)
        return getattr(self._g, name)


class NpRandomModel:
    def __init__(self, m):
        self._m, self._g = m, None

    def seed(self, s=None):
        if s is None or is_sym(s):
            self._g = None
        else:
            self._g = np.random.RandomState(int(s))
            self._m.seeds.append(("np.random", int(s)))

    def default_rng(self, *a, **k):
        return np.random.default_rng(*a, **k)

    def __getattr__(self, name):
        if name.startswith("_"):
            raise AttributeError(name)
        if self._g is None:
            return lambda *a, **k: self._m.draw("np.random", name)
        return getattr(self._g, name)


class GeneratorModel:
    """the module-level numpy_rng: seeded once at import and never re-seeded, so its state always depends on prior use"""

    def __init__(self, m):
        self._m = m

    def __getattr__(self, name):
        if name.startswith("_"):
            raise AttributeError(name)
        return lambda *a, **k: self._m.draw("numpy_rng", name)


class TorchModel:
    def __init__(self, m):
        import torch

        self._m, self._t, self._seeded = m, torch, False
        self.random = types.SimpleNamespace(seed=self._random_seed)

    def manual_seed(self, s):
        if is_sym(s):
            self._seeded = False
        else:
            self._seeded = True
            self._m.seeds.append(("torch", int(s)))

    allow_random_seed = None  # set while a configuration with seed=None is being constructed (the one place where a fresh seed may be drawn)

    def _random_seed(self):
        # torch.random.seed() re-seeds torch non-deterministically and returns that seed
        if self.allow_random_seed is not None:
            return self.allow_random_seed
        return self._m.draw("torch", "random.seed")

    def __getattr__(self, name):
        if name.startswith("_"):
            raise AttributeError(name)
        if name in ("rand", "randn", "randint", "randperm", "bernoulli", "multinomial", "normal") and not self._seeded:
            return lambda *a, **k: self._m.draw("torch", name)
        return getattr(self._t, name)


class _NpWith:
    def __init__(self, rnd):
        self.random = rnd

    def __getattr__(self, name):
        return getattr(np, name)


def _library_history():
    """earlier uses of the library that a caller may have made in the same process, including calls that FAILED
    (the failure is caught, as a caller would): they must leave no trace that later generation can see"""
    from maze_dataset import MazeDataset, MazeDatasetConfig

    for filters in ([dict(name="remove_duplicates", args=(), kwargs=dict(_max_dataset_len_threshold=1))],
                    [dict(name="path_length", args=(), kwargs=dict(min_length=1)), dict(name="no_such_filter", args=(), kwargs={})],
                    [dict(name="path_length", args=(), kwargs=dict(no_such_argument=1))]):
        try:
            MazeDataset.from_config(MazeDatasetConfig(name="hist", grid_n=3, n_mazes=3, seed=5, applied_filters=filters),
                                    load_local=False, save_local=False, do_download=False)
        except Exception:
            pass
    try:
        MazeDataset.generate(MazeDatasetConfig(name="hist2", grid_n=2, n_mazes=1, seed=11,
                                               endpoint_kwargs=dict(allowed_start=[(5, 5)], except_when_invalid=True)), gen_parallel=False)
    except Exception:
        pass
    MazeDataset.generate(MazeDatasetConfig(name="other", grid_n=3, n_mazes=2, seed=99), gen_parallel=False)
    MazeDatasetConfig(name="another", grid_n=5, n_mazes=1, seed=7)


class ModelEnv:
    """install the RNG model everywhere the library (and set_reproducibility) reaches a global RNG"""

    def forget(self):
        """after the call history: every RNG is in a state that depends on that history again"""
        self._py._g = None
        self._npr._g = None
        self._tch._seeded = False
        self.m.unseeded.clear()
        self.m.seeds.clear()

    SITES = [("muutils.mlutils", "random", "py"), ("muutils.mlutils", "np", "np"), ("muutils.mlutils", "torch", "torch"),
             ("maze_dataset.generation.generators", "random", "py"), ("maze_dataset.generation.generators", "np", "np"),
             ("maze_dataset.generation.generators", "numpy_rng", "gen"), ("maze_dataset.maze.lattice_maze", "np", "np"),
             ("maze_dataset.dataset.maze_dataset", "np", "np"), ("maze_dataset.dataset.dataset", "torch", "torch"), ("maze_dataset.dataset.dataset", "np", "np"),
             ("maze_dataset.token_utils", "np", "np"), ("maze_dataset.tokenization.maze_tokenizer", "numpy_rng", "gen"),
             ("maze_dataset.tokenization.maze_tokenizer", "random", "py")]

    def __enter__(self):
        import importlib

        self.m = _Model()
        py, npr, gen, tch = PyRandomModel(self.m), NpRandomModel(self.m), GeneratorModel(self.m), TorchModel(self.m)
        self._py, self._npr, self._tch = py, npr, tch
        objs = dict(py=py, np=_NpWith(npr), gen=gen, torch=tch)
        self._saved = []
        for mod, name, kind in self.SITES:
            mo = importlib.import_module(mod)
            if hasattr(mo, name):
                self._saved.append((mo, name, getattr(mo, name)))
                setattr(mo, name, objs[kind])
        # the check itself runs inside a multiprocessing worker: make the library see the main process (serial generation)
        import maze_dataset.dataset.maze_dataset as md
        from props.c03 import _mp_stub

        self._saved.append((md, "multiprocessing", md.multiprocessing))
        md.multiprocessing = _mp_stub([])
        return self

    def __exit__(self, *a):
        for mo, name, v in reversed(self._saved):
            setattr(mo, name, v)
        return False


def _cfg(job):
    from maze_dataset import MazeDatasetConfig
    from maze_dataset.generation.generators import GENERATORS_MAP

    return MazeDatasetConfig(name="c04", grid_n=job["n"], n_mazes=job["n_mazes"], seed=job["seed"], maze_ctor=GENERATORS_MAP[job["gen"]],
                             maze_ctor_kwargs=copy.deepcopy(job["kwargs"]),
                             endpoint_kwargs={k: ([tuple(x) for x in v] if isinstance(v, list) else v) for k, v in job["endpoint"].items()},
                             applied_filters=[dict(name=f[0], args=tuple(f[1]), kwargs=dict(f[2])) for f in job["filters"]])


def _dump(ds):
    return [(m.connection_list.astype(int).tolist(), np.asarray(m.solution).tolist()) for m in ds.mazes]


def _cfg_js(cfg):
    d = cfg.serialize()
    d = dict(d)
    d["maze_ctor"] = d["maze_ctor"]["__name__"]
    return json.dumps(d, sort_keys=True, default=str)


def _run_pure(job):
    def run(ctx, pinned=None):
        from maze_dataset import MazeDataset
        from maze_dataset.dataset.dataset import GPTDataset

        with ModelEnv() as env:
            try:
                _library_history()
            except HistoryDependentDraw:
                pass
            env.forget()
            try:
                if job["seed"] is None:
                    # seed=None means "draw a seed when the configuration is built": that one draw may depend on the history; from then on the
                    # configuration object carries a concrete seed and everything below must be a function of that object alone
                    env._tch.allow_random_seed = 123456789
                cfg = _cfg(job)  # constructing the configuration is part of the call history
                env._tch.allow_random_seed = None
                if job["seed"] is None:
                    env.forget()
                    if not isinstance(cfg.seed, int) or isinstance(cfg.seed, bool):
                        return [("a configuration built with seed=None carries a concrete seed afterwards", z3.BoolVal(False))]
                want_seed = cfg.seed if job["seed"] is None else job["seed"]
                before = _cfg_js(cfg)  # snapshot before any library call sees the object
                plain = MazeDataset.generate(_strip_filters(cfg), gen_parallel=False)
                d1 = _dump(plain)
                via = MazeDataset.from_config(cfg, load_local=False, save_local=False, do_download=False)
                after = _cfg_js(cfg)
                again = MazeDataset.generate(_strip_filters(cfg if job["seed"] is None else _cfg(job)), gen_parallel=False)
            except HistoryDependentDraw as e:
                ctx.notes["why"] = str(e)
                return [(f"no value is drawn from an RNG whose state depends on the prior history ({e})", z3.BoolVal(False))]
            except ValueError as e:
                if "no valid start or end positions" in str(e) or "larger sample" in str(e):
                    return [("documented ValueError", z3.BoolVal(True))]
                raise
            # filters by hand, in order, on the plain generation
            hand = plain
            for f in job["filters"]:
                hand = getattr(hand.filter_by, f[0])(*f[1], **f[2])
            obs = [("no value is drawn from an RNG whose state depends on the prior history", z3.BoolVal(not env.m.unseeded)),
                   ("every RNG the generation reads was re-seeded from the configuration's seed immediately before",
                    z3.BoolVal(all(s == want_seed for _, s in env.m.seeds))),
                   ("generating again (configuration rebuilt) gives bit-identical mazes and solutions", z3.BoolVal(_dump(again) == d1)),
                   ("the config-driven entry point returns that dataset with the configured filters applied in order", z3.BoolVal(_dump(via) == _dump(hand))),
                   ("the configuration object passed in is not modified", z3.BoolVal(before == after)),
                   ("the result records the configured filters", z3.BoolVal([f["name"] for f in via.cfg.applied_filters] == [f[0] for f in job["filters"]]))]
            if job["seed"] is not None:  # (for seed=None the drawn seed differs between the model run and a real run by design)
                ctx.notes["sig"] = d1
            ctx.notes["seeds_seen"] = sorted({f"{a}:{b}" for a, b in env.m.seeds})
        # outside the model: the unpatched library after two very different real pre-histories (RNG use, failed calls, hundreds of other mazes)
        from symx import harness as _H

        with _H.unpatched():
            try:
                real = _replay_pure_inner(job)
            except ValueError as e:
                real = None if ("no valid start or end positions" in str(e) or "larger sample" in str(e)) else f"ValueError {e}"
        ctx.notes["real"] = real
        obs.append(("the unpatched library generates the same dataset after two different real pre-histories", z3.BoolVal(real is None)))
        return obs

    return run


def _strip_filters(cfg):
    from maze_dataset import MazeDatasetConfig

    c = MazeDatasetConfig.load(cfg.serialize())
    c.applied_filters = []
    return c


def _prehistory(k):
    """two very different prior uses of the library and of every RNG"""
    import torch
    from maze_dataset import MazeDataset, MazeDatasetConfig
    from maze_dataset.generation.generators import numpy_rng

    _pyrandom.seed(1000 + k)
    np.random.seed(2000 + k)
    torch.manual_seed(3000 + k)
    for _ in range(3 + 5 * k):
        _pyrandom.random()
        np.random.rand(2)
        numpy_rng.random(2 + k)
    torch.rand(1 + k)
    if k:
        _library_history()
        # many small percolation mazes: every connection structure of the 2x2 grid and a good part of those of the 3x3 grid have been
        # generated (with other start cells / components) before the measured generation
        from maze_dataset.generation.generators import GENERATORS_MAP

        for gn, nm, sds in ((2, 6, range(262, 282)), (3, 8, range(300, 325))):
            for sd in sds:
                try:  # (a start cell without any connection makes generation raise the documented ValueError: that attempt simply ends early)
                    MazeDataset.generate(MazeDatasetConfig(name="hist-perc", grid_n=gn, n_mazes=nm, seed=sd, maze_ctor=GENERATORS_MAP["gen_percolation"], maze_ctor_kwargs=dict(p=0.5)), gen_parallel=False)
                except ValueError:
                    pass
        np.random.rand(3)
        _pyrandom.random()


def _real_outputs(job):
    from maze_dataset import MazeDataset

    outs = []
    once = _cfg(job) if job["seed"] is None else None  # seed=None: the seed is drawn when the object is built; the claim is about that object
    for k in (0, 1):
        _prehistory(k)
        cfg = once if once is not None else _cfg(job)
        try:
            outs.append(_dump(MazeDataset.generate(_strip_filters(cfg), gen_parallel=False)))
        except ValueError as e:
            outs.append(f"ValueError {e}")
    return outs


def _replay_pure(job, inputs, notes):
    from maze_dataset import MazeDataset

    try:
        return _replay_pure_inner(job)
    except ValueError as e:
        if "no valid start or end positions" in str(e) or "larger sample" in str(e):
            return None
        raise


def _replay_pure_inner(job):
    from maze_dataset import MazeDataset

    outs = _real_outputs(job)
    tag = f"{job['gen']}{job['kwargs']} grid_n={job['n']} n_mazes={job['n_mazes']} seed={job['seed']} endpoint={job['endpoint']}"
    if outs[0] != outs[1]:
        return f"generation-depends-on-history | {tag}: generating the same configuration after two different RNG pre-histories gives different mazes"
    _prehistory(1)
    cfg = _cfg(job)
    before = _cfg_js(cfg)
    via = MazeDataset.from_config(cfg, load_local=False, save_local=False, do_download=False)
    if _cfg_js(cfg) != before:
        return f"from_config-modifies-cfg | {tag} filters={job['filters']}"
    _prehistory(0)
    hand = MazeDataset.generate(_strip_filters(cfg if job["seed"] is None else _cfg(job)), gen_parallel=False)
    for f in job["filters"]:
        hand = getattr(hand.filter_by, f[0])(*f[1], **f[2])
    if _dump(via) != _dump(hand):
        return f"from_config-differs | {tag} filters={job['filters']}: from_config is not generate + the configured filters in order"
    return None


def _real_sig(job, inputs):
    return _real_outputs(job)[0]


def _pinned(job, seed):
    return [{}]  # one validation run per configuration: model output vs the real library's output


_CHILD = r"""
import sys, json, warnings, hashlib
warnings.filterwarnings("ignore")
sys.path.insert(0, sys.argv[1])
if len(sys.argv) > 3 and sys.argv[3]:
    sys.path.insert(0, sys.argv[3])
from props import c04
from maze_dataset import MazeDataset
out = []
for job in json.loads(sys.argv[2]):
    try:
        ds = MazeDataset.from_config(c04._cfg(job), load_local=False, save_local=False, do_download=False)
        out.append(hashlib.sha256(json.dumps(c04._dump(ds)).encode()).hexdigest())
    except ValueError as e:
        out.append("ValueError")
print("RESULT" + json.dumps(out))
"""


def _xproc_problem(job):
    """the same configurations generated in fresh interpreter processes (different PYTHONHASHSEED, no history) and here after a history"""
    import hashlib
    import os
    import subprocess
    import sys

    from maze_dataset import MazeDataset

    verif = os.path.dirname(os.path.dirname(os.path.abspath(__file__)))
    cfgs = job["cfgs"]
    here = []
    import maze_dataset.dataset.maze_dataset as md
    from props.c03 import _mp_stub

    old_mp = md.multiprocessing
    md.multiprocessing = _mp_stub([])  # the check runs inside a pool worker: make the library see a main process (serial generation)
    try:
        _prehistory(1)
        for j in cfgs:
            # siblings of the measured configuration (same generator and arguments, other seeds, more mazes) are generated first in THIS process only
            for ds_ in (220, 221, 222):
                try:
                    MazeDataset.from_config(_cfg(dict(j, seed=(j["seed"] or 0) + ds_, n_mazes=5 * j["n_mazes"], filters=[])), load_local=False, save_local=False, do_download=False)
                except ValueError:
                    pass
            try:
                ds = MazeDataset.from_config(_cfg(j), load_local=False, save_local=False, do_download=False)
                here.append(hashlib.sha256(json.dumps(_dump(ds)).encode()).hexdigest())
            except ValueError:
                here.append("ValueError")
    finally:
        md.multiprocessing = old_mp
    for hs in job["hashseeds"]:
        p = subprocess.run([sys.executable, "-W", "ignore", "-c", _CHILD, verif, json.dumps(cfgs), os.environ.get("VERIF_REPO", "")],
                           env=dict(os.environ, PYTHONHASHSEED=str(hs), VERIF_IN_VENV="1"), capture_output=True, text=True, timeout=900)
        line = [l for l in p.stdout.splitlines() if l.startswith("RESULT")]
        if not line:
            raise Inconclusive(f"child interpreter failed: {p.stderr[-300:]}")
        there = json.loads(line[0][6:])
        for k, (a, b) in enumerate(zip(here, there)):
            if a != b:
                j = cfgs[k]
                return (f"generation-differs-between-processes | {j['gen']}{j['kwargs']} grid_n={j['n']} n_mazes={j['n_mazes']} seed={j['seed']} endpoint={j['endpoint']} "
                        f"filters={j['filters']}: a fresh interpreter (PYTHONHASHSEED={hs}) generates a different dataset than this process after other work")
    return None


def _run_xproc(job):
    def run(ctx, pinned=None):
        msg = _xproc_problem(job)
        ctx.inputs["dummy"] = z3.IntVal(0)
        ctx.notes["finding"] = msg
        return [("the same configuration yields the same dataset in fresh interpreter processes with other hash seeds", z3.BoolVal(msg is None))]

    return run


def _replay_xproc(job, inputs, notes):
    return _xproc_problem(job)


def jobs(tier, seed):
    q = tier == "quick"
    out = []
    # generator arguments incl. the proportional (float) forms of accessible_cells / max_tree_depth and a start cell
    kw = {"gen_dfs": [{}, dict(accessible_cells=5, max_tree_depth=4), dict(do_forks=False), dict(randomized_stack=True), dict(accessible_cells=0.5, max_tree_depth=0.6, start_coord=[1, 1])],
          "gen_prim": [{}, dict(accessible_cells=6), dict(accessible_cells=1.0, max_tree_depth=0.5)], "gen_wilson": [{}], "gen_percolation": [dict(p=0.5), dict(p=0.3, start_coord=[0, 0])],
          "gen_dfs_percolation": [dict(p=0.2), dict(p=0.4, accessible_cells=5), dict(p=0.4, accessible_cells=0.75, max_tree_depth=0.5)]}
    eps = [{}, dict(deadend_start=True, endpoints_not_equal=True), dict(allowed_start=[[0, 0], [1, 1]], allowed_end=[[2, 2], [1, 0]]),
           # every endpoint option spelled out, defaults included (a key that is present must still be present afterwards)
           dict(except_when_invalid=True, deadend_start=False, deadend_end=True, endpoints_not_equal=False, allowed_start=[[0, 0], [0, 1], [1, 1]], allowed_end=None)]
    fls = [[], [["path_length", [], {"min_length": 3}]], [["path_length", [], {"min_length": 2}], ["truncate_count", [], {"max_count": 2}]]]
    k = 0
    for gen in GENS:
        for kwargs in kw[gen]:
            for s in (0, 1, 42):
                for n in ((3,) if q else (2, 3, 4)):
                    ep = eps[k % 4] if n >= 3 else {}
                    fl = fls[k % 3]
                    k += 1
                    out.append(dict(h="pure", gen=gen, kwargs=kwargs, seed=s, n=n, n_mazes=3 if n >= 3 else 2, endpoint=ep, filters=fl))
    out.append(dict(h="pure", gen="gen_dfs", kwargs={}, seed=2 ** 31 - 1, n=4, n_mazes=3, endpoint={}, filters=[]))
    # tiny percolation grids: few distinct connection structures, so equal structures with different start cells recur between datasets
    out.append(dict(h="pure", gen="gen_percolation", kwargs=dict(p=0.5), seed=42, n=2, n_mazes=8, endpoint={}, filters=[]))
    out.append(dict(h="pure", gen="gen_percolation", kwargs=dict(p=0.5), seed=42, n=3, n_mazes=6, endpoint={}, filters=[]))
    # seed=None: a seed is drawn once, when the configuration object is built; generating from that object is then repeatable like any other
    out.append(dict(h="pure", gen="gen_dfs", kwargs={}, seed=None, n=3, n_mazes=3, endpoint={}, filters=fls[1]))
    out.append(dict(h="pure", gen="gen_dfs_percolation", kwargs=dict(p=0.3), seed=None, n=3, n_mazes=2, endpoint=eps[1], filters=[]))
    pick = [j for j in out if j["seed"] is not None and j["seed"] in (0, 42)][:: (4 if q else 2)]
    pick += [j for j in out if j["gen"] == "gen_percolation" and j["n"] <= 3 and j["n_mazes"] >= 6 and j not in pick]  # structures that recur between datasets
    out.append(dict(h="xproc", cfgs=[{k: v for k, v in j.items() if k != "h"} for j in pick], hashseeds=[1, 4242] if q else [0, 1, 7, 4242], max_seconds=3000))
    out.sort(key=lambda j: 0 if j["h"] == "xproc" else 1)
    out.append(dict(_alias.ALIAS_JOB))  # results must not alias library state, arguments or each other (props/alias_common.py)
    out[0]["twin"] = True
    return out


def warmup():
    from maze_dataset import MazeDatasetConfig

    MazeDatasetConfig(name="warm", grid_n=2, n_mazes=1)


HARNESSES = {"pure": dict(run=_run_pure, replay=_replay_pure, real_sig=_real_sig, pinned=_pinned, patch=dict(np_modules=[], stub_ascii=False)),
             "xproc": dict(run=_run_xproc, replay=_replay_xproc, patch=dict(np_modules=[], stub_ascii=False), validate_every=0)}
HARNESSES["alias"] = _alias.alias_harness("C04")

MANIFEST = dict(
    technique="symbolic execution of the real code under a symbolic RNG-state model (seeded RNGs delegate to the real generators, a draw from an "
              "RNG whose state depends on the call history is the violation); on code where the property holds every path is decided without a "
              "solver query, counterexamples are replayed on the real code after two different pre-histories",
    level_text="bounded symbolic execution of the real functions with the initial state of every global RNG symbolic; every obligation on every explored "
               "path is discharged for all RNG states within the stated bound, counterexamples are replayed on the real code")

META = dict(
    functions=["GPTDatasetConfig.__post_init__ -> muutils.mlutils.set_reproducibility", "MazeDataset.generate (serial)", "_maze_gen_init_worker", "_generate_maze_helper",
               "GPTDataset.from_config(load_local=False, save_local=False)", "GPTDataset._apply_filters_from_config", "the five generators", "LatticeMaze.generate_random_path"],
    bounds=dict(quick="initial state of python random / numpy global RNG / torch RNG / numpy_rng arbitrary (symbolic), after a fixed library-call history that includes failed from_config / generate calls; 5 generators x kwargs grid x seeds {0,1,42} at grid_n 3, "
                      "n_mazes 3, endpoint options and filter lists of length <= 2 cycled over the grid",
                thorough="grid_n in {2,3,4}"),
    degenerate=dict(xproc="concrete differential between interpreter processes", pure="on code where the property holds every draw is made from a freshly seeded RNG, so the run is a single concrete path; the symbolic initial RNG state only "
                         "matters on code that reads it (then the first such draw is the counterexample)"),
    stubs=["multiprocessing.current_process in maze_dataset.py -> main-process identity (the check runs inside a pool worker)", "random / np.random / torch (manual_seed, random.seed, sampling functions) / numpy_rng in muutils.mlutils, generators.py, lattice_maze.py, maze_dataset.py, dataset.py, "
           "token_utils.py, maze_tokenizer.py -> RNG-state model: Seeded(s) delegates to the real generator for s (random.Random / np.random.RandomState), Unseeded reports the draw"],
    outside=["other interpreter processes / PYTHONHASHSEED values are not a symbolic input: they are covered by a concrete differential only (a sample of the configurations generated in fresh interpreters with 2 hash seeds)", "parallel generation", "the value of the seed drawn for seed=None (only that the built configuration object then behaves like any seeded one)",
             "the on-disk cache (C11)"],
    assumptions=["np.random.RandomState(s) reproduces the global numpy RNG after np.random.seed(s); random.Random(s) reproduces random.seed(s) (validated per run: model output == real output)"],
)

META.setdefault("degenerate", {})["alias"] = _alias.ALIAS_META
