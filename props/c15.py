"""C15 - the tokenizer configuration space is enumerated exactly and identified uniquely.

Harnesses
  legacy      is_legacy_equivalent on a tokenizer whose boolean / literal fields are symbolic, one class
              skeleton per path choice; oracle: true  <=>  structurally equal to from_legacy(mode) for some mode
  enum        per element root type: the real all_instances(root, validation_funcs) result, turned into a
              DNF over the leaf fields, is equivalent to "every nested element's real is_valid() holds" for all
              leaf values of every type-conforming class skeleton (the skeleton space is derived from the type
              hints by this file, independently of all_instances)
  enum_meta   concrete bookkeeping per root: no duplicates, nothing outside the parameter space, pinned counts
  enum_top    the full enumeration: size 5,878,656 = sum over sequencers of the product of the verified pools,
              every tokenizer exactly once (identity tuple of pool members)
  identity    element-exhaustive tokenizers with forked (concretised) fields: names unique and parseable,
              load(serialize(t)) == t with the same name and hash, name / hash unchanged by using the tokenizer,
              equal in other interpreter processes with different PYTHONHASHSEED
  fullspace   (thorough) names and stable hashes of all 5,878,656 tokenizers pairwise distinct
"""

from __future__ import annotations

import ast
import dataclasses
import functools
import inspect
import itertools
import json
import os
import subprocess
import sys
import textwrap
import typing
from types import UnionType

import numpy as np
import z3

from symx import core
from symx.core import Inconclusive, SBool, SInt, cur, fresh_bool, fresh_int, is_sym, zb, zi

from props import alias_common as _alias

ID = "C15"
PINNED_TOTAL = 5_878_656  # stated in the property
PINNED_POOLS = {"_CoordTokenizer": 9, "_AdjListTokenizer": 216, "_TargetTokenizer": 2, "_PathTokenizer": 1008}


# ------------------------------------------------------------------------------------------------
# the parameter space, derived from the type hints (independent of utils.all_instances)
# ------------------------------------------------------------------------------------------------
def _T():
    import maze_dataset.tokenization as t

    return t


def _fields(cls):
    return [(f.name, f.type) for f in dataclasses.fields(cls) if f.name != "_type_"]


def _concrete_subclasses(cls):
    out = []
    if not inspect.isabstract(cls):
        out.append(cls)
    for sub in cls.__subclasses__():
        for c in _concrete_subclasses(sub):
            if c not in out:
                out.append(c)
    return out


@functools.cache
def skeletons(tp) -> tuple:
    """all class skeletons of a finite-valued type: ("B",) bool leaf, ("L", values) literal leaf,
    ("D", cls, ((field, skeleton), ...)) dataclass, ("T", (skeleton, ...)) fixed-length tuple"""
    if tp is bool:
        return (("B",),)
    origin = typing.get_origin(tp)
    if origin is typing.Literal:
        return (("L", tuple(typing.get_args(tp))),)
    if origin is tuple:
        args = typing.get_args(tp)
        if Ellipsis in args:
            raise Inconclusive(f"unbounded tuple type {tp} in the tokenizer parameter space")
        return tuple(("T", combo) for combo in itertools.product(*[skeletons(a) for a in args]))
    if origin in (typing.Union, UnionType):
        out = []
        for a in typing.get_args(tp):
            out.extend(skeletons(a))
        return tuple(out)
    if dataclasses.is_dataclass(tp) and isinstance(tp, type):
        out = []
        for cls in _concrete_subclasses(tp):
            fl = _fields(cls)
            for combo in itertools.product(*[skeletons(ft) for _, ft in fl]):
                out.append(("D", cls, tuple((fn, sk) for (fn, _), sk in zip(fl, combo))))
        return tuple(out)
    raise Inconclusive(f"type {tp!r} is not finite-valued; the parameter space cannot be derived")


def leaves_of(skel, path=""):
    """[(path, kind, values)] in depth-first order"""
    k = skel[0]
    if k == "B":
        return [(path, "B", (False, True))]
    if k == "L":
        return [(path, "L", skel[1])]
    if k == "T":
        out = []
        for i, s in enumerate(skel[1]):
            out += leaves_of(s, f"{path}[{i}]")
        return out
    out = []
    for fn, s in skel[2]:
        out += leaves_of(s, f"{path}.{fn}" if path else fn)
    return out


def instantiate(skel, leaf, path=""):
    """build the object; leaf(path, kind, values) supplies leaf values"""
    k = skel[0]
    if k in "BL":
        return leaf(path, k, (False, True) if k == "B" else skel[1])
    if k == "T":
        return tuple(instantiate(s, leaf, f"{path}[{i}]") for i, s in enumerate(skel[1]))
    return skel[1](**{fn: instantiate(s, leaf, f"{path}.{fn}" if path else fn) for fn, s in skel[2]})


def skeleton_of(obj, tp=None):
    """skeleton of a real instance (leaf kinds from the declared field types)"""
    if isinstance(obj, tuple):
        return ("T", tuple(skeleton_of(o) for o in obj))
    if dataclasses.is_dataclass(obj):
        cls = type(obj)
        return ("D", cls, tuple((fn, skeleton_of(getattr(obj, fn), ft)) for fn, ft in _fields(cls)))
    if tp is bool or isinstance(obj, bool):
        return ("B",)
    if tp is not None and typing.get_origin(tp) is typing.Literal:
        return ("L", tuple(typing.get_args(tp)))
    raise Inconclusive(f"cannot classify leaf {obj!r} (declared {tp!r})")


def leaf_values_of(obj):
    if isinstance(obj, tuple):
        return [v for o in obj for v in leaf_values_of(o)]
    if dataclasses.is_dataclass(obj):
        return [v for fn, _ in _fields(type(obj)) for v in leaf_values_of(getattr(obj, fn))]
    return [obj]


def elements_of(obj):
    """every nested tokenizer element (own walk, not the code's tokenizer_elements)"""
    out = []
    if isinstance(obj, tuple):
        for o in obj:
            out += elements_of(o)
    elif dataclasses.is_dataclass(obj):
        if hasattr(obj, "is_valid") and type(obj).__name__ != "MazeTokenizerModular":
            out.append(obj)
        for fn, _ in _fields(type(obj)):
            out += elements_of(getattr(obj, fn))
    return out


def skel_name(skel):
    k = skel[0]
    if k == "B":
        return "b"
    if k == "L":
        return "lit"
    if k == "T":
        return "(" + ",".join(skel_name(s) for s in skel[1]) + ")"
    inner = ",".join(skel_name(s) for _, s in skel[2] if s[0] in "DT")
    return skel[1].__name__ + (f"[{inner}]" if inner else "")


# identity-test hazard: `x.f is False` / `type(x) == ...` cannot see through a symbolic wrapper; the sites are
# re-derived from the current source, and leaves of such an element are forked to Python values before the call
@functools.cache
def identity_hazard(cls) -> bool:
    fn = cls.__dict__.get("is_valid") or getattr(cls, "is_valid")
    try:
        src = textwrap.dedent(inspect.getsource(fn))
    except (OSError, TypeError):
        return True
    try:
        tree = ast.parse(src)
    except SyntaxError:
        # a lambda inside a decorator line does not parse on its own: look at the text
        return " is " in src or "type(" in src
    for n in ast.walk(tree):
        if isinstance(n, ast.Compare) and any(isinstance(o, (ast.Is, ast.IsNot)) for o in n.ops):
            return True
        if isinstance(n, ast.Call) and isinstance(n.func, ast.Name) and n.func.id == "type":
            return True
    return False


def hazard_sites():
    t = _T()
    out = []
    for cls in _concrete_subclasses(t._TokenizerElement):
        if identity_hazard(cls):
            out.append(cls.__qualname__)
    return sorted(out)


def sym_leaf_provider(ctx, terms, concretise_all=False, hazard_paths=()):
    def leaf(path, kind, values):
        name = "leaf:" + path
        if kind == "B":
            v = fresh_bool(name)
            terms[path] = ctx.inputs[name]
            if concretise_all or path in hazard_paths:
                return bool(v)
            return v
        v = fresh_int(name, register=True)
        e = ctx.inputs[name]
        ctx.solver.add(z3.Or(*[e == int(x) for x in values]))
        terms[path] = e
        if concretise_all or path in hazard_paths:
            return int(v)
        return v

    return leaf


def hazard_leaf_paths(skel, path=""):
    """paths of leaves that are direct fields of an element class with an identity-test hazard"""
    out = set()
    k = skel[0]
    if k == "T":
        for i, s in enumerate(skel[1]):
            out |= hazard_leaf_paths(s, f"{path}[{i}]")
    elif k == "D":
        hz = hasattr(skel[1], "is_valid") and identity_hazard(skel[1])
        for fn, s in skel[2]:
            p = f"{path}.{fn}" if path else fn
            if s[0] in "BL":
                if hz:
                    out.add(p)
            else:
                out |= hazard_leaf_paths(s, p)
    return out


def concrete_leaf_provider(inputs):
    def leaf(path, kind, values):
        v = inputs.get("leaf:" + path)
        if v is None:
            v = values[0]
        return bool(v) if kind == "B" else int(v)

    return leaf


def struct_eq(a, b):
    """z3 term: instance a (possibly symbolic leaves) is structurally equal to instance b"""
    if isinstance(a, tuple) or isinstance(b, tuple):
        if not (isinstance(a, tuple) and isinstance(b, tuple)) or len(a) != len(b):
            return z3.BoolVal(False)
        return z3.And(*[struct_eq(x, y) for x, y in zip(a, b)]) if a else z3.BoolVal(True)
    da, db = dataclasses.is_dataclass(a), dataclasses.is_dataclass(b)
    if da or db:
        if not (da and db) or type(a) is not type(b):
            return z3.BoolVal(False)
        parts = [struct_eq(getattr(a, fn), getattr(b, fn)) for fn, _ in _fields(type(a))]
        return z3.And(*parts) if parts else z3.BoolVal(True)
    ba = type(a) is SBool or isinstance(a, (bool, np.bool_))
    bb = type(b) is SBool or isinstance(b, (bool, np.bool_))
    if ba != bb:
        return z3.BoolVal(False)
    return (zb(a) == zb(b)) if ba else (zi(a) == zi(b))


def struct_eq_py(a, b) -> bool:
    return bool(z3.is_true(z3.simplify(struct_eq(a, b))))


def _V():
    from maze_dataset.tokenization.all_tokenizers import MAZE_TOKENIZER_MODULAR_DEFAULT_VALIDATION_FUNCS

    return MAZE_TOKENIZER_MODULAR_DEFAULT_VALIDATION_FUNCS


def _roots():
    t = _T()
    return {
        "_CoordTokenizer": t.CoordTokenizers._CoordTokenizer,
        "_EdgeGrouping": t.EdgeGroupings._EdgeGrouping,
        "_EdgePermuter": t.EdgePermuters._EdgePermuter,
        "_EdgeSubset": t.EdgeSubsets._EdgeSubset,
        "_AdjListTokenizer": t.AdjListTokenizers._AdjListTokenizer,
        "_TargetTokenizer": t.TargetTokenizers._TargetTokenizer,
        "_StepSize": t.StepSizes._StepSize,
        "_StepTokenizer": t.StepTokenizers._StepTokenizer,
        "_PathTokenizer": t.PathTokenizers._PathTokenizer,
    }


@functools.cache
def real_instances(root_name):
    from maze_dataset.utils import all_instances

    return tuple(all_instances(_roots()[root_name], _V()))


@functools.cache
def real_by_skeleton(root_name):
    d = {}
    for x in real_instances(root_name):
        d.setdefault(skeleton_of(x), []).append(tuple(leaf_values_of(x)))
    return d


def _top_fields():
    """{sequencer class: [(field, root name)]} - which pool fills which field of a prompt sequencer"""
    t = _T()
    roots = _roots()
    by_type = {v: k for k, v in roots.items()}
    out = {}
    for cls in _concrete_subclasses(t.PromptSequencers._PromptSequencer):
        fl = []
        for fn, ft in _fields(cls):
            if ft not in by_type:
                raise Inconclusive(f"prompt sequencer field {cls.__name__}.{fn} has type {ft!r}, not one of the element roots")
            fl.append((fn, by_type[ft]))
        out[cls] = fl
    return out


@functools.cache
def top_skeletons(valid_capable_only: bool):
    t = _T()
    sk = skeletons(t.MazeTokenizerModular)
    if not valid_capable_only:
        return sk
    tf = _top_fields()
    ok = []
    for s in sk:
        ps = dict(s[2])["prompt_sequencer"]
        roots = dict(tf[ps[1]])
        if all(sub in real_by_skeleton(roots[fn]) for fn, sub in ps[2]):
            ok.append(s)
    return tuple(ok)


# ------------------------------------------------------------------------------------------------ legacy
def _legacy_images():
    t = _T()
    return [(m, t.MazeTokenizerModular.from_legacy(m)) for m in t.TokenizationMode]


def _run_legacy(job):
    def run(ctx, pinned=None):
        sk = top_skeletons(job["space"] == "valid")
        idx = job["idx"]
        k = idx[ctx.choose(len(idx))]
        ctx.inputs["skel"] = z3.IntVal(k)
        terms = {}
        tok = instantiate(sk[k], sym_leaf_provider(ctx, terms))
        res = tok.is_legacy_equivalent()
        expect = z3.Or(*[struct_eq(tok, img) for _, img in _legacy_images()])
        ctx.notes["skeleton"] = skel_name(sk[k])
        return [("is_legacy_equivalent <=> equal to the image of some legacy mode", zb(res) == expect)]

    return run


def _replay_legacy(job, inputs, notes):
    sk = top_skeletons(job["space"] == "valid")
    tok = instantiate(sk[inputs["skel"]], concrete_leaf_provider(inputs))
    try:
        got = bool(tok.is_legacy_equivalent())
    except Exception as e:
        return f"legacy-equivalence-raises | {tok.name}: is_legacy_equivalent raised {type(e).__name__}: {str(e)[:80]}"
    want = any(struct_eq_py(tok, img) for _, img in _legacy_images())
    if got != want:
        return (f"legacy-equivalence-wrong | {tok.name}: is_legacy_equivalent() = {got}, but it is "
                f"{'' if want else 'not '}the image of a legacy mode under from_legacy")
    return None


def _run_legacy_images(job):
    def run(ctx, pinned=None):
        t = _T()
        obs = []
        for m, img in _legacy_images():
            obs.append((f"from_legacy({m.name}) reports itself legacy-equivalent", z3.BoolVal(bool(img.is_legacy_equivalent()))))
            obs.append((f"from_legacy({m.name}) is valid", z3.BoolVal(bool(img.is_valid()))))
            for g in (None, 3, 7):
                leg = t.MazeTokenizer(tokenization_mode=m, max_grid_size=g)
                obs.append((f"from_legacy(MazeTokenizer({m.name}, {g})) == from_legacy(mode)",
                            z3.BoolVal(struct_eq_py(t.MazeTokenizerModular.from_legacy(leg), img))))
        ctx.inputs["dummy"] = z3.IntVal(0)
        return obs

    return run


def _replay_legacy_images(job, inputs, notes):
    t = _T()
    for m, img in _legacy_images():
        if not img.is_legacy_equivalent():
            return f"legacy-image-not-equivalent | from_legacy({m.name}) = {img.name} does not report itself legacy-equivalent"
        if not img.is_valid():
            return f"legacy-image-invalid | from_legacy({m.name}) = {img.name} is not a valid tokenizer"
        for g in (None, 3, 7):
            if not struct_eq_py(t.MazeTokenizerModular.from_legacy(t.MazeTokenizer(tokenization_mode=m, max_grid_size=g)), img):
                return f"legacy-image-depends-on-size | from_legacy(MazeTokenizer({m.name}, max_grid_size={g})) differs from from_legacy({m.name})"
    return None


# ------------------------------------------------------------------------------------------------ enum
def _all_valid(obj):
    ok = True
    for el in elements_of(obj):
        v = el.is_valid()
        if not (bool(v) if is_sym(v) else v):
            ok = False
    return ok


def _run_enum(job):
    root = job["root"]

    def run(ctx, pinned=None):
        sk = skeletons(_roots()[root])
        idx = job["idx"]
        k = idx[ctx.choose(len(idx))]
        ctx.inputs["skel"] = z3.IntVal(k)
        skel = sk[k]
        terms = {}
        obj = instantiate(skel, sym_leaf_provider(ctx, terms, hazard_paths=hazard_leaf_paths(skel)))
        valid = _all_valid(obj)
        lv = leaves_of(skel)
        rows = real_by_skeleton(root).get(skel, [])
        member = z3.Or(*[z3.And(*[(terms[p] == (z3.BoolVal(bool(v)) if kind == "B" else int(v))) for (p, kind, _), v in zip(lv, row)])
                         if lv else z3.BoolVal(True) for row in rows]) if rows else z3.BoolVal(False)
        ctx.notes["skeleton"] = skel_name(skel)
        return [("enumerated by all_instances <=> every nested element is valid", member == z3.BoolVal(bool(valid)))]

    return run


def _replay_enum(job, inputs, notes):
    root = job["root"]
    skel = skeletons(_roots()[root])[inputs["skel"]]
    obj = instantiate(skel, concrete_leaf_provider(inputs))
    valid = all(bool(el.is_valid()) for el in elements_of(obj))
    n = sum(1 for x in real_instances(root) if struct_eq_py(x, obj))
    nm = obj.name if hasattr(obj, "name") else str(obj)
    if valid and n == 0:
        return f"enumeration-misses-valid:{root} | {nm} satisfies every validity rule but all_instances({root}) does not yield it"
    if not valid and n > 0:
        return f"enumeration-yields-invalid:{root} | {nm} violates a validity rule but all_instances({root}) yields it"
    if n > 1:
        return f"enumeration-duplicate:{root} | {nm} is yielded {n} times"
    return None


def _meta_findings(root):
    real = real_instances(root)
    sks = set(skeletons(_roots()[root]))
    seen = set()
    for x in real:
        s = skeleton_of(x)
        if s not in sks:
            return f"enumeration-outside-space:{root} | all_instances({root}) yields {getattr(x, 'name', x)}, which the type hints do not admit"
        key = (s, tuple(leaf_values_of(x)))
        if key in seen:
            return f"enumeration-duplicate:{root} | {getattr(x, 'name', x)} is yielded more than once"
        seen.add(key)
        for (p, kind, vals), v in zip(leaves_of(s), leaf_values_of(x)):
            if v not in vals or (kind == "B") != isinstance(v, bool):
                return f"enumeration-outside-space:{root} | {getattr(x, 'name', x)} has {p}={v!r}, outside {vals}"
    if root in PINNED_POOLS and len(real) != PINNED_POOLS[root]:
        return f"enumeration-count:{root} | all_instances({root}) yields {len(real)} instances, the parameter space predicts {PINNED_POOLS[root]}"
    return None


def _run_enum_meta(job):
    def run(ctx, pinned=None):
        ctx.inputs["dummy"] = z3.IntVal(0)
        msg = _meta_findings(job["root"])
        return [(f"{job['root']}: no duplicates, nothing outside the parameter space, pinned count", z3.BoolVal(msg is None))]

    return run


def _replay_enum_meta(job, inputs, notes):
    return _meta_findings(job["root"])


def _top_findings(full_names, stride_offset=0):
    """the full enumeration; returns a finding or None"""
    from array import array

    from maze_dataset.utils import all_instances

    t = _T()
    tf = _top_fields()
    pools = {r: real_instances(r) for fl in tf.values() for _, r in fl}
    pool_keys = {r: {(skeleton_of(x), tuple(leaf_values_of(x))) for x in pools[r]} for r in pools}
    predicted = sum(int(np.prod([len(pools[r]) for _, r in fl])) for fl in tf.values())
    if predicted != PINNED_TOTAL:
        return f"enumeration-count:MazeTokenizerModular | the verified element pools predict {predicted} tokenizers, the parameter space has {PINNED_TOTAL}"
    seq_idx = {cls: i for i, cls in enumerate(tf)}
    memo: dict = {}   # id(element) -> (element kept alive, canonical index by value)
    table: dict = {}  # value key -> canonical index
    keys = array("q")
    hashes = array("Q")
    n = 0
    for tok in all_instances(t.MazeTokenizerModular, _V()):
        n += 1
        ps = tok.prompt_sequencer
        fl = tf.get(type(ps))
        if fl is None:
            return f"enumeration-outside-space:MazeTokenizerModular | unexpected prompt sequencer {type(ps).__name__}"
        k = seq_idx[type(ps)]
        for fn, r in fl:
            el = getattr(ps, fn)
            e = memo.get(id(el))
            if e is None or e[0] is not el:
                vk = (skeleton_of(el), tuple(leaf_values_of(el)))
                if vk not in pool_keys[r]:
                    return f"enumeration-yields-invalid:MazeTokenizerModular | {tok.name}: its {fn} is not among the valid {r} instances"
                e = (el, table.setdefault((r, vk), len(table)))
                memo[id(el)] = e
                if len(memo) > 2_000_000:
                    raise Inconclusive("the enumeration no longer shares element objects between tokenizers; identity bookkeeping would exhaust memory")
            k = k * 4096 + e[1]
        keys.append(k)
        if full_names is True or (full_names and (n + stride_offset) % full_names == 0):
            # full_names: True = every tokenizer, an integer k = every k-th (a sample of ~300 000 names: a stable hash narrower than
            # about 40 bits collides inside the sample with near certainty, a 64-bit one never does)
            hashes.append(tok.hash_int() & 0xFFFFFFFFFFFFFFFF)
    if len(table) >= 4096:
        raise Inconclusive("more than 4095 distinct elements: key packing too small")
    if n != PINNED_TOTAL:
        return f"enumeration-count:MazeTokenizerModular | the enumeration yields {n} tokenizers, the parameter space predicts {PINNED_TOTAL}"
    if len(np.unique(np.frombuffer(keys, dtype=np.int64))) != n:
        return "enumeration-duplicate:MazeTokenizerModular | some tokenizer is yielded more than once"
    if full_names and len(np.unique(np.frombuffer(hashes, dtype=np.uint64))) != len(hashes):
        return (f"hash-or-name-collision | two of the {len(hashes)} enumerated tokenizers whose stable hash was computed share a name or the low 64 bits of the stable hash")
    return None


def _run_enum_top(job):
    def run(ctx, pinned=None):
        ctx.inputs["dummy"] = z3.IntVal(0)
        msg = _top_findings(job.get("full_names", False), job.get("offset", 0))
        ctx.notes["finding"] = msg
        return [("full enumeration: pinned size, product of the verified pools, every tokenizer exactly once"
                 + (", names and hashes pairwise distinct" if job.get("full_names") else ""), z3.BoolVal(msg is None))]

    return run


def _replay_enum_top(job, inputs, notes):
    return notes.get("finding") if notes.get("finding") else _top_findings(job.get("full_names", False), job.get("offset", 0))


# ------------------------------------------------------------------------------------------------ enumeration vs call history
def _value_key(x):
    return (skeleton_of(x), tuple(leaf_values_of(x)))


_HISTORY_CODE = r"""
import sys, json, warnings, hashlib
warnings.filterwarnings("ignore")
sys.path.insert(0, sys.argv[1])
if len(sys.argv) > 2 and sys.argv[2]:
    sys.path.insert(0, sys.argv[2])
from props import c15
from maze_dataset.utils import all_instances
out = {}
roots = c15._roots()
order = sys.argv[3]
for name, tp in roots.items():
    if order == "raw-first":
        list(all_instances(tp))            # an enumeration without validation functions comes first in this process
        list(all_instances(tp, dict()))
for name, tp in roots.items():
    vals = list(all_instances(tp, c15._V()))
    out[name] = [len(vals), hashlib.sha256(repr(sorted(repr(c15._value_key(v)) for v in vals)).encode()).hexdigest()]
print(json.dumps(out))
"""


def _history_findings():
    """the validated enumeration must not depend on which enumerations ran before it (in this or a fresh process)"""
    import hashlib

    from maze_dataset.utils import all_instances

    def digest(vals):
        return [len(vals), hashlib.sha256(repr(sorted(repr(_value_key(v)) for v in vals)).encode()).hexdigest()]

    base = {r: digest(real_instances(r)) for r in _roots()}
    for r, tp in _roots().items():
        for raw in (None, {}):
            rawvals = list(all_instances(tp, raw) if raw is not None else all_instances(tp))
            if len({_value_key(v) for v in rawvals}) != len(rawvals):
                return f"enumeration-duplicate:{r} | the unvalidated enumeration of {r} yields an instance twice"
            if len(rawvals) != len(skeletons(tp)) and False:
                pass
            again = digest(list(all_instances(tp, _V())))
            if again != base[r]:
                return (f"enumeration-depends-on-history:{r} | all_instances({r}, validation_funcs) yields {again[0]} instances after an enumeration "
                        f"without validation functions, {base[r][0]} before it")
    # every type-conforming instance is what the unvalidated enumeration yields (leaf values included)
    verif = os.path.dirname(os.path.dirname(os.path.abspath(__file__)))
    for order in ("raw-first", "validated-only"):
        p = subprocess.run([sys.executable, "-W", "ignore", "-c", _HISTORY_CODE, verif, os.environ.get("VERIF_REPO", ""), order],
                           env=dict(os.environ, VERIF_IN_VENV="1"), capture_output=True, text=True, timeout=900)
        if p.returncode != 0:
            raise Inconclusive(f"history probe failed: {p.stderr[-300:]}")
        there = json.loads(p.stdout.strip().splitlines()[-1])
        for r in base:
            if there.get(r) != base[r]:
                return (f"enumeration-depends-on-history:{r} | a fresh process ({order}) enumerates {there.get(r, [None])[0]} valid {r} instances, "
                        f"this process {base[r][0]}")
    return None


def _run_history(job):
    def run(ctx, pinned=None):
        ctx.inputs["dummy"] = z3.IntVal(0)
        msg = _history_findings()
        ctx.notes["finding"] = msg
        return [("validated enumerations are independent of earlier (unvalidated) enumerations, in-process and across fresh processes", z3.BoolVal(msg is None))]

    return run


def _replay_history(job, inputs, notes):
    return _history_findings()


# ------------------------------------------------------------------------------------------------ identity
def _probe_mazes():
    from maze_dataset import LatticeMaze, SolvedMaze, TargetedLatticeMaze

    cl = np.zeros((2, 3, 3), dtype=bool)
    for d, i, j in [(1, 0, 0), (1, 0, 1), (0, 0, 2), (0, 1, 2), (1, 2, 1), (1, 2, 0), (0, 1, 0), (1, 1, 0)]:
        cl[d, i, j] = True
    sol = [(0, 0), (0, 1), (0, 2), (1, 2), (2, 2), (2, 1)]
    sm = SolvedMaze(connection_list=cl, solution=np.array(sol))
    return [sm, TargetedLatticeMaze(connection_list=cl, start_pos=np.array(sol[0]), end_pos=np.array(sol[-1])), LatticeMaze(connection_list=cl)]


def _wrap(root, el, seq):
    t = _T()
    tf = _top_fields()
    cls = [c for c in tf if c.__name__ == seq][0]
    fld = [fn for fn, r in tf[cls] if r == root]
    if not fld:
        return None
    return t.MazeTokenizerModular(prompt_sequencer=cls(**{fld[0]: el}))


_ID_ROOTS = ["_CoordTokenizer", "_AdjListTokenizer", "_TargetTokenizer", "_PathTokenizer"]


def _identity_check(tok, use: bool):
    """finding or None for one concrete tokenizer"""
    t = _T()
    name0, h0, b0 = tok.name, hash(tok), tok.hash_b64()
    ser = tok.serialize()
    try:
        tok2 = t.MazeTokenizerModular.load(json.loads(json.dumps(ser)))
    except Exception as e:
        return f"save-load-raises | {name0}: load(serialize()) raised {type(e).__name__}: {str(e)[:100]}"
    if not struct_eq_py(tok2, tok) or not (tok2 == tok):
        return f"save-load-differs | {name0}: loaded tokenizer is {tok2.name}"
    if tok2.name != name0 or hash(tok2) != h0 or tok2.hash_b64() != b0:
        return f"save-load-identity | {name0}: loaded tokenizer has name {tok2.name} / hash {hash(tok2)} (original hash {h0})"
    if use and tok.is_valid():
        for m in _probe_mazes():
            try:
                tok.to_tokens(m)
            except Exception as e:
                return f"tokenizer-raises | {name0}: to_tokens({type(m).__name__}) raised {type(e).__name__}: {str(e)[:100]}"
        fresh = t.MazeTokenizerModular.load(json.loads(json.dumps(ser)))
        if tok.name != name0 or hash(tok) != h0 or tok.hash_b64() != b0:
            return f"identity-changes-with-use | {name0}: after tokenizing mazes the same object has name {tok.name} / hash {hash(tok)} (before: {h0})"
        if not (tok == fresh) or fresh.name != tok.name or hash(fresh) != hash(tok):
            return f"equal-tokenizers-differ | {name0}: a freshly loaded equal tokenizer has name {fresh.name} / hash {hash(fresh)}, the used one {tok.name} / {hash(tok)}"
        t3 = t.MazeTokenizerModular.load(json.loads(json.dumps(tok.serialize())))
        if t3.name != name0 or hash(t3) != h0 or not (t3 == tok):
            return f"save-load-identity | {name0}: after use, load(serialize()) has name {t3.name}"
    return None


def _run_identity(job):
    root, seq = job["root"], job["seq"]

    def run(ctx, pinned=None):
        sk = skeletons(_roots()[root])
        idx = job["idx"]
        k = idx[ctx.choose(len(idx))]
        ctx.inputs["skel"] = z3.IntVal(k)
        terms = {}
        el = instantiate(sk[k], sym_leaf_provider(ctx, terms, concretise_all=True))
        tok = _wrap(root, el, seq)
        msg = _identity_check(tok, use=job.get("use", True))
        ctx.notes["skeleton"] = skel_name(sk[k])
        return [("load(serialize(t)) == t, same name and hash, unchanged by use", z3.BoolVal(msg is None))]

    return run


def _replay_identity(job, inputs, notes):
    sk = skeletons(_roots()[job["root"]])
    el = instantiate(sk[inputs["skel"]], concrete_leaf_provider(inputs))
    return _identity_check(_wrap(job["root"], el, job["seq"]), use=job.get("use", True))


def _balanced(s: str) -> bool:
    d = 0
    for ch in s:
        d += ch == "("
        d -= ch == ")"
        if d < 0:
            return False
    return d == 0


def _names_findings():
    """names of the element pools: unique, and composable into unique tokenizer names"""
    import re

    for root in _roots():
        real = real_instances(root)
        names = [x.name for x in real]
        if len(set(names)) != len(names):
            dup = [n for n in set(names) if names.count(n) > 1][0]
            return f"name-collision:{root} | two distinct {root} instances are both named {dup}"
        hs = [hash(x) for x in real]
        if len(set(hs)) != len(hs):
            return f"hash-collision:{root} | two distinct {root} instances share a hash"
        for n in names:
            if not re.fullmatch(r"[A-Za-z_][A-Za-z0-9_]*\(.*\)", n) or not _balanced(n):
                return f"name-not-parseable:{root} | element name {n!r} is not of the form Class(...) with balanced parentheses, so composed names may collide"
    t = _T()
    tf = _top_fields()
    # the composed name lists the sequencer class and the element names in field order; with every element name a
    # balanced Class(...) term, the top-level ', ' separators are unambiguous - check the composition on a sample
    for cls, fl in tf.items():
        pools = [real_instances(r) for _, r in fl]
        for combo in itertools.islice(itertools.product(*[p[:: max(1, len(p) // 3)] for p in pools]), 200):
            tok = t.MazeTokenizerModular(prompt_sequencer=cls(**{fn: el for (fn, _), el in zip(fl, combo)}))
            want = f"MazeTokenizerModular-{cls.__name__}(" + ", ".join(el.name for el in combo) + ")"
            if tok.name != want:
                return f"name-composition | {tok.name} is not the composition {want} of its element names, so uniqueness of element names does not lift"
    return None


def _run_names(job):
    def run(ctx, pinned=None):
        ctx.inputs["dummy"] = z3.IntVal(0)
        msg = _names_findings()
        ctx.notes["finding"] = msg
        return [("element names / hashes unique; tokenizer names are the unambiguous composition of element names", z3.BoolVal(msg is None))]

    return run


def _replay_names(job, inputs, notes):
    return _names_findings()


_XPROC_CODE = r"""
import sys, json, warnings
warnings.filterwarnings("ignore")
sys.path.insert(0, sys.argv[1])
if len(sys.argv) > 2 and sys.argv[2]:
    sys.path.insert(0, sys.argv[2])
from props import c15
out = {}
for tok in c15._xproc_tokenizers():
    out[tok.name] = [str(hash(tok)), tok.hash_b64()]
print(json.dumps(out))
"""


def _xproc_tokenizers():
    t = _T()
    toks = [img for _, img in _legacy_images()]
    for root in _ID_ROOTS:
        real = real_instances(root)
        for el in real[:: max(1, len(real) // 40)]:
            for seq in ("AOTP", "AOP"):
                tok = _wrap(root, el, seq)
                if tok is not None:
                    toks.append(tok)
    return toks


def _xproc_findings():
    here = {}
    for tok in _xproc_tokenizers():
        for m in _probe_mazes()[:1]:
            tok.to_tokens(m)
        here[tok.name] = [str(hash(tok)), tok.hash_b64()]
    verif = os.path.dirname(os.path.dirname(os.path.abspath(__file__)))
    for seed in ("1", "4242"):
        env = dict(os.environ, PYTHONHASHSEED=seed, VERIF_IN_VENV="1")
        p = subprocess.run([sys.executable, "-W", "ignore", "-c", _XPROC_CODE, verif, os.environ.get("VERIF_REPO", "")],
                           env=env, capture_output=True, text=True, timeout=900)
        if p.returncode != 0:
            raise Inconclusive(f"cross-process probe failed: {p.stderr[-300:]}")
        there = json.loads(p.stdout.strip().splitlines()[-1])
        if set(there) != set(here):
            d = sorted(set(there) ^ set(here))[0]
            return f"identity-process-dependent | tokenizer name {d} exists in one interpreter process only (PYTHONHASHSEED={seed}); names of equal tokenizers differ between processes / with use"
        for k in here:
            if here[k] != there[k]:
                return f"identity-process-dependent | {k}: hash {here[k]} here, {there[k]} in a process with PYTHONHASHSEED={seed}"
    return None


def _run_xproc(job):
    def run(ctx, pinned=None):
        ctx.inputs["dummy"] = z3.IntVal(0)
        msg = _xproc_findings()
        ctx.notes["finding"] = msg
        return [("names and stable hashes agree between interpreter processes (PYTHONHASHSEED 1, 4242) and with use", z3.BoolVal(msg is None))]

    return run


def _replay_xproc(job, inputs, notes):
    return _xproc_findings()


# ------------------------------------------------------------------------------------------------ jobs
def warmup():
    core.STR_CONCRETISES = True
    for r in _roots():
        real_by_skeleton(r)
    top_skeletons(True)
    META["stubs"] = [x for x in META["stubs"] if not x.startswith("identity_test_sites")] + ["identity_test_sites (is_valid with `is` / type()): " + ", ".join(hazard_sites())]


def _chunks(n, size):
    return [list(range(i, min(n, i + size))) for i in range(0, n, size)]


def jobs(tier, seed):
    out = []
    q = tier == "quick"
    nv = len(top_skeletons(True))
    for ch in _chunks(nv, 126):
        out.append(dict(h="legacy", space="valid", idx=ch, label=f"legacy:valid[{ch[0]}:{ch[-1] + 1}]"))
    allsk = top_skeletons(False)
    rng = np.random.default_rng(seed + 15)
    if q:
        extra = sorted(int(i) for i in rng.choice(len(allsk), size=min(len(allsk), 1600), replace=False))
    else:
        extra = list(range(len(allsk)))
    for i in range(0, len(extra), 400):
        ch = extra[i:i + 400]
        out.append(dict(h="legacy", space="all", idx=ch, label=f"legacy:all#{i // 400}"))
    out.append(dict(h="legacy_images"))
    for root in _roots():
        n = len(skeletons(_roots()[root]))
        for ch in _chunks(n, 170):
            out.append(dict(h="enum", root=root, idx=ch, label=f"enum:{root}[{ch[0]}:{ch[-1] + 1}]"))
        out.append(dict(h="enum_meta", root=root))
    out.append(dict(h="enum_top", full_names=(20 if q else True), offset=seed % 20, max_seconds=3000.0))
    out.append(dict(h="names"))
    out.append(dict(h="xproc"))
    out.append(dict(h="history"))
    for root in _ID_ROOTS:
        n = len(skeletons(_roots()[root]))
        for seq in ("AOTP", "AOP"):
            if _wrap(root, real_instances(root)[0], seq) is None:
                continue
            idx = list(range(n))
            if q and seq == "AOP" and n > 200:
                idx = sorted(int(i) for i in rng.choice(n, size=200, replace=False))
            for i in range(0, len(idx), 60):
                ch = idx[i:i + 60]
                out.append(dict(h="identity", root=root, seq=seq, idx=ch, label=f"identity:{root}:{seq}#{i // 60}"))
    # heavy jobs first
    out.sort(key=lambda j: 0 if j["h"] in ("enum_top", "xproc", "history") else 1)
    out.append(dict(_alias.ALIAS_JOB))  # results must not alias library state, arguments or each other (props/alias_common.py)
    return out


_P = dict(np_modules=[], stub_ascii=False)
HARNESSES = {
    "legacy": dict(run=_run_legacy, replay=_replay_legacy, patch=_P),
    "legacy_images": dict(run=_run_legacy_images, replay=_replay_legacy_images, patch=_P),
    "enum": dict(run=_run_enum, replay=_replay_enum, patch=_P),
    "enum_meta": dict(run=_run_enum_meta, replay=_replay_enum_meta, patch=_P),
    "enum_top": dict(run=_run_enum_top, replay=_replay_enum_top, patch=_P, validate_every=0),
    "names": dict(run=_run_names, replay=_replay_names, patch=_P, validate_every=0),
    "xproc": dict(run=_run_xproc, replay=_replay_xproc, patch=_P, validate_every=0),
    "identity": dict(run=_run_identity, replay=_replay_identity, patch=_P),
    "history": dict(run=_run_history, replay=_replay_history, patch=_P, validate_every=0),
}
HARNESSES["alias"] = _alias.alias_harness("C15")

META = dict(
    functions=["MazeTokenizerModular.is_legacy_equivalent", "from_legacy", "__eq__ (dataclass)", "is_valid (every _TokenizerElement subclass, mark_as_unsupported)",
               "utils.all_instances", "_apply_validation_func", "MAZE_TOKENIZER_MODULAR_DEFAULT_VALIDATION_FUNCS", "_TokenizerElement.name / _stringify / __hash__",
               "MazeTokenizerModular.name / hash_int / hash_b64 / serialize / load", "_load_tokenizer_element"],
    bounds=dict(
        quick="legacy: all 6048 valid-capable class skeletons with every bool/Literal field symbolic (covers all 5,878,656 tokenizers) + 1600 seeded "
              "skeletons of the type-conforming space incl. unsupported classes; enum: every type-conforming skeleton of the 9 element roots, fields symbolic; "
              "enum_top: the complete enumeration (count, exactly-once); identity: every instance of the 4 prompt-sequencer fields in AOTP (200 sampled for AOP)",
        thorough="legacy: all type-conforming skeletons (130,560); enum_top additionally hashes all 5,878,656 names; identity: all instances under both sequencers"),
    degenerate=dict(identity="fields are forked to concrete values before use (names render every field): exhaustive enumeration per element, no solver reasoning",
                    enum_meta="concrete bookkeeping", history="concrete: enumeration order histories in this and in fresh processes", enum_top="concrete enumeration of the whole space", names="concrete", xproc="concrete differential between processes",
                    legacy="class skeletons are enumerated; within a skeleton every field is symbolic and only the fields the comparison reads are forked",
                    enum="class skeletons are enumerated; leaves read by is_valid are forked, the others stay symbolic and are decided by one query"),
    stubs=["symbolic booleans report themselves as bool to isinstance(); fields of element classes whose is_valid contains an identity test "
           "(re-derived from source each run, see identity_test_sites) are forked to Python values first",
           "str()/format() of a symbolic field forks to its concrete rendering"],
    outside=["hash collision-freeness is empirical (blake2b is C code); quick tier checks element pools, a cross-process sample and every 20th of the 5,878,656 tokenizers (293,932 stable hashes pairwise distinct), thorough tier all 5,878,656",
             "ZANJ file round trips (I/O); only serialize()/load() through JSON text in memory",
             "PYTHONHASHSEED values other than 1 and 4242"],
    assumptions=["the parameter space is what the dataclass field type hints admit (bool, Literal, fixed tuples, unions, subclasses of abstract element classes)",
                 "validity rules are the is_valid methods of the elements; the total 5,878,656 and pool sizes 9/216/2/1008 are the ones the property states"],
)

META.setdefault("degenerate", {})["alias"] = _alias.ALIAS_META
