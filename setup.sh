#!/usr/bin/env bash
# Build the overlay venv: /venv's packages + /repo on the path, plus z3-solver and crosshair-tool
# from the offline wheelhouse.  Idempotent, offline.
set -euo pipefail
cd "$(dirname "$0")"
if [ ! -x .venv/bin/python ] || ! .venv/bin/python -c "import z3, crosshair, numpy, maze_dataset" 2>/dev/null; then
  rm -rf .venv
  /venv/bin/python -m venv .venv
  SP=$(.venv/bin/python -c "import site;print(site.getsitepackages()[0])")
  printf "import site; site.addsitedir('/venv/lib/python3.12/site-packages')\n/repo\n" > "$SP/_overlay.pth"
  PIP_NO_INDEX=1 .venv/bin/pip install -q --no-index --find-links /opt/veriftools/wheels z3-solver crosshair-tool
fi
.venv/bin/python -c "import z3, crosshair, numpy, maze_dataset; print('verif venv ok: z3', z3.get_version_string())"
